"""C13 - rolling logs: no overwrite on roll-over, budget enforced after each write, newest never pruned, lock discipline."""

from __future__ import annotations

import ast
import re

from . import rule
from ..model import Unresolved, walk_scope, parent, enclosing_function, qualname, ancestors
from ..paths import U, Path, Evaluator
from .. import q

RL = 'openfilter/filter_runtime/rolllog.py'
STATE = ('logfiles', 'logfiles_size', 'read_idx', 'read_file', 'write_file')


def _split_top(inner: str):
    """split 'a, b' at the top-level comma"""
    depth = 0
    for i, ch in enumerate(inner):
        if ch in '([{':
            depth += 1
        elif ch in ')]}':
            depth -= 1
        elif ch == ',' and depth == 0:
            return [inner[:i], inner[i + 1:]]
    return [inner]


def cls_of(repo):
    return repo.find(f'{RL}::RollLog')


def fn_paths(repo, name, **kw):
    c = repo.__dict__.setdefault('_c13', {})
    key = (name, tuple(sorted(kw.items())))
    if key not in c:
        mod, fn = repo.find(f'{RL}::RollLog.{name}')
        local_defs = {n.name: n for n in ast.walk(fn) if isinstance(n, ast.FunctionDef) and n is not fn}
        def inline(call, rc, path, _d=local_defs, _m=mod):      # a helper defined inside the method (a closure over its locals) is evaluated in place
            return (_m, _d[call.func.id], None) if isinstance(call.func, ast.Name) and call.func.id in _d else None
        ev = Evaluator(repo, mod, inline=inline if local_defs else None, **kw)
        ev.scope_node = fn
        c[key] = (mod, fn, ev.run(fn.body))
    return c[key]


@rule('C13.R1', 'a roll-over never overwrites: the file named by new_logfile is opened in exclusive mode, or its timestamp is forced strictly above the newest existing log file before the name is formed')
def r1(rr, repo):
    mod, wfn, wpaths = fn_paths(repo, 'write')
    rr.paths += len(wpaths)
    opens = {}
    for p in wpaths:
        for e in p.events:
            if e.kind == 'call' and e.term == 'open' and e.args and 'new_logfile(' in e.args[0]:
                mode = e.args[1] if len(e.args) > 1 else dict(e.kwargs).get('mode', "'r'")
                opens[id(e.node)] = (e, mode)
    rr.floor('open() sites of a newly named log file', len(opens), 1, mod, wfn)
    exclusive = all('x' in m.strip('\'"') for _, m in opens.values()) and bool(opens)
    nmod, nfn, npaths = fn_paths(repo, 'new_logfile')
    rr.paths += len(npaths)
    forced = True
    detail = []
    n = 0
    coarse = []
    # how does the timestamp enter the file name?  fnm_from_dats formats int(ts * 1_000_000): names have microsecond resolution
    name_res = None
    for st in nmod.tree.body:
        if isinstance(st, ast.Assign) and isinstance(st.value, ast.Lambda) and any(U(t) == 'fnm_from_dats' for t in st.targets):
            for c in ast.walk(st.value):
                if isinstance(c, ast.Call) and U(c.func) == 'int' and c.args and isinstance(c.args[0], ast.BinOp) and isinstance(c.args[0].op, ast.Mult):
                    name_res = ('int(', f'* {U(c.args[0].right)}')
    param = q.func_params(nfn)[1]
    for p in npaths:
        o = p.outcome
        if o is None or o[0] != 'return' or o[1] is None or not isinstance(o[1], ast.Call) or not o[1].args:
            if o is not None and o[0] == 'raise':
                continue
            forced = False
            detail.append(f'{p.pc_text()} => {p.outcome_text()[:80]}')
            continue
        n += 1
        T = o[1].args[0]
        # the listed timestamp may be the raw one or the one the name encodes (int(ts * 1_000_000) / 1_000_000): same microsecond either way
        if isinstance(T, ast.BinOp) and isinstance(T.op, ast.Div) and isinstance(T.left, ast.Call) and U(T.left.func) == 'int' and T.left.args and isinstance(T.left.args[0], ast.BinOp) \
                and isinstance(T.left.args[0].op, ast.Mult) and U(T.left.args[0].right) == U(T.right):
            T = T.left.args[0].left
        names = [c for c in ast.walk(o[1]) if isinstance(c, ast.Call) and U(c.func) == 'fnm_from_dats']
        same = bool(names) and len(names[0].args) > 1 and U(names[0].args[1]) == U(T)
        empty = p.facts.get('truthy(self.logfiles)') is False
        above = None
        for k, v in p.pc:
            if k.startswith('ord(') and 'self.logfiles[-1].timestamp' in k:
                inner = k[4:-1]
                def at_name_resolution(part):
                    part = part.strip()
                    if 'self.logfiles[-1].timestamp' in part:   # the newest file's listed timestamp: truncation or rounding recovers its microsecond count
                        return part.startswith((name_res[0], 'round(')) and name_res[1] in part
                    return part.startswith(name_res[0]) and name_res[1] in part      # the new timestamp: exactly the truncation the name uses
                if name_res and not all(at_name_resolution(part) for part in _split_top(inner)):
                    coarse.append(k)   # compared at another resolution than the one the file name is built from
                first_is_last = inner.startswith(('int(self.logfiles[-1].timestamp', 'round(self.logfiles[-1].timestamp', 'self.logfiles[-1].timestamp'))
                rel_new_vs_last = ({'<': '>', '>': '<', '=': '='}[v]) if first_is_last else v
                above = rel_new_vs_last == '>'
        bumped = 'self.logfiles[-1].timestamp' in U(T) and any(isinstance(b, ast.BinOp) and isinstance(b.op, ast.Add) and any(isinstance(c, ast.Constant) and isinstance(c.value, (int, float)) and c.value > 0 for c in (b.left, b.right)) for b in ast.walk(T))
        ok = same and (empty or above is True or bumped)
        if not ok:
            forced = False
            detail.append(f'{p.pc_text() or "unconditional"} => timestamp {U(T)[:80]}')
    if coarse and not exclusive:
        rr.violated('the "is the new timestamp above the newest file\'s" test compares raw timestamps although file names are built from truncated microseconds: two timestamps inside one microsecond pass the test and still produce the same name (the existing file is truncated)',
                    nmod, nfn, witness=coarse[0][:200], key='name-resolution')
    if exclusive:
        rr.holds('new log files are opened in exclusive mode', mod, next(iter(opens.values()))[0].node, key='exclusive')
    elif forced and n:
        rr.holds('new_logfile forces the timestamp that names the file strictly above the newest existing file on every path', nmod, nfn, key='forced-above')
    else:
        e, mode = next(iter(opens.values()))
        rr.violated(f'a new log file is opened with mode {mode} (truncating) under a name that can equal an existing file\'s: equal or backwards timestamps overwrite it', mod, e.node,
                    witness='; '.join(detail)[:400], key='overwrite')
    rr.floor('returning paths of new_logfile', n, 1, nmod, nfn)


@rule('C13.R2', 'the budget is enforced after every write (prune when the running total exceeds total_size), pruning never unlinks the newest file and re-bases the reader when it deleted something')
def r2(rr, repo):
    mod, wfn, wpaths = fn_paths(repo, 'write')
    n = 0
    for p in wpaths:
        st = [e for e in p.events if e.kind == 'store' and e.term == 'self.logfiles_size']
        if not st:
            continue
        over = None
        for k, v in p.pc:
            if k.startswith('ord(') and 'self.total_size' in k and 'self.logfiles_size' in k:
                inner = k[4:-1]
                total_first = inner.startswith('self.total_size')
                rel_size_vs_total = ({'<': '>', '>': '<', '=': '='}[v]) if total_first else v
                over = rel_size_vs_total == '>'
        pr = [e for e in p.events if e.kind == 'call' and e.term == 'self.prune_logfiles']
        if over is None:
            rr.violated('a write updates the running total without comparing it with total_size', mod, st[0].node, witness=p.pc_text()[-200:], key='no-budget-test')
            continue
        n += 1
        if over:
            rr.ob('over budget after a write => prune_logfiles()', bool(pr) and p.events.index(pr[0]) > p.events.index(st[0]), mod, st[0].node, witness=p.pc_text()[-200:], key='prune-called')
    rr.floor('write paths that update the running total', n, 2, mod, wfn)
    pmod, pfn = repo.find(f'{RL}::RollLog.prune_logfiles')
    unlinks = [c for c in q.calls_in(pfn) if U(c.func) in ('os.unlink', 'os.remove')]
    rr.floor('unlink sites in prune_logfiles', len(unlinks), 1, pmod, pfn)
    # the iterator over reversed(logfiles) is advanced once (the newest file) before any unlink loop, when there are files
    nxt = [c for c in q.name_calls(pfn, 'next')]
    itname = None
    for st in pfn.body:
        if isinstance(st, ast.Assign) and isinstance(st.value, ast.Call) and 'reversed(' in U(st.value):
            itname = U(st.targets[0])
    okn = bool(nxt) and itname is not None and all(U(c.args[0]) == itname for c in nxt) and min(c.lineno for c in nxt) < min(u.lineno for u in unlinks)
    rr.ob('the newest file is taken off the candidate iterator (next(...)) before any deletion', okn, pmod, pfn, key='skip-newest')
    for u in unlinks:
        loops = [a for a in ancestors(u) if isinstance(a, ast.For)]
        ok = bool(loops) and all(U(l.iter) == itname for l in loops)
        rr.ob('files are unlinked only while walking the remaining (older) candidates', ok, pmod, u, key=f'unlink-in-iter|{U(u.args[0])}')
    ev = Evaluator(repo, pmod, unroll_for=1)
    pp = ev.run(pfn.body)
    rr.paths += len(pp)
    k = 0
    for p in pp:
        ul = [e for e in p.events if e.kind == 'call' and e.term in ('os.unlink', 'os.remove')]
        if ul:
            nx = [e for e in p.events if e.kind == 'call' and e.term == 'next']
            if p.facts.get('truthy(self.logfiles)') is False:
                continue   # an empty list has nothing to iterate: infeasible combination
            rr.ob('on every deleting path the newest file was first taken off the candidate iterator', bool(nx) and p.events.index(nx[0]) < p.events.index(ul[0]), pmod, ul[0].node, witness=p.pc_text()[-200:], key='skip-newest-path')
            if any(kk.startswith('eq(-1, __elem__(') and v is True for kk, v in p.facts.items()):
                continue   # the enumerate index of a deleted (older) file is >= 1: this combination is infeasible
            k += 1
            rb = [e for e in p.events if e.kind == 'store' and e.term == 'self.read_idx']
            dl = [e for e in p.events if e.kind == 'del' and 'logfiles[' in e.term]
            rr.ob('after deleting files the list is trimmed and the reader index re-based', bool(rb) and bool(dl), pmod, ul[0].node, witness=p.pc_text()[-200:], key='rebase')
    rr.floor('pruning paths that delete', k, 1, pmod, pfn)
    # re-base decision table: the reader keeps its open file and moves its index down by the number of deleted files
    # when its file survived (index - deleted >= 0); only when its file was deleted (< 0) is it reset and closed
    rows = set()
    for p in pp:
        rel = None
        term = None
        for kk, v in p.pc:
            if kk.startswith('ord(0, self.read_idx - ') or (kk.startswith('ord(self.read_idx - ') and kk.endswith(', 0)')):
                zero_first = kk.startswith('ord(0, ')
                rel = ({'<': '>', '>': '<', '=': '='}[v]) if zero_first else v
                term = kk[7:-1] if zero_first else kk[4:-4]
        if rel is None:
            continue
        rows.add(rel)
        st = [e for e in p.events if e.kind == 'store' and e.term == 'self.read_idx']
        closed = [e for e in p.events if e.kind == 'call' and e.term.endswith('.close')] + [e for e in p.events if e.kind == 'store' and e.term == 'self.read_file']
        if rel in ('=', '>'):
            ok = bool(st) and st[-1].args[0] == term and not closed
            rr.ob("the reader's file survived the pruning (index - deleted >= 0): the index is re-based and the open file and offset are kept", ok, pmod, st[-1].node if st else pfn,
                  witness=f'read_idx - deleted {rel} 0: {[repr(e)[:60] for e in st + closed]}', key=f'rebase-survivor|{rel}')
        else:
            ok = bool(st) and st[-1].args[0] == '0'
            rr.ob("the reader's file was deleted (index - deleted < 0): it restarts at the oldest surviving file", ok, pmod, st[-1].node if st else pfn, witness=str([repr(e)[:60] for e in st]), key='rebase-deleted')
    rr.floor('orderings of (reader index - deleted files) vs 0 distinguished', len(rows), 3, pmod, pfn)


@rule('C13.R3', 'lock discipline: every store to logfiles / logfiles_size / read_idx / read_file / write_file happens under self.lock, in __init__, or in a private helper all of whose call sites are so protected')
def r3(rr, repo):
    mod, cls = cls_of(repo)
    methods = {f.name: f for f in cls.body if isinstance(f, ast.FunctionDef)}

    def protected_fn(fn, seen=()):
        """all call sites self.<fn>() are under the lock / in __init__ / in a protected helper"""
        if fn.name == '__init__':
            return True
        sites = [c for c in q.attr_calls(cls, fn.name) if U(c.func) == f'self.{fn.name}']
        if not sites:
            return False
        for c in sites:
            host = enclosing_function(c)
            if q.within_with(c, 'self.lock'):
                continue
            if host is not None and host.name not in seen and protected_fn(host, seen + (fn.name,)):
                continue
            return False
        return True

    n = 0
    for attr in STATE:
        for st, tgt in q.stores_to_attr(cls, attr):
            if U(tgt.value) != 'self':
                continue
            n += 1
            fn = enclosing_function(st)
            ok = fn.name == '__init__' or q.within_with(st, 'self.lock') or protected_fn(fn)
            rr.ob(f'store to self.{attr} is protected by the lock', ok, mod, st, key=f'lock|{attr}|{qualname(st)}|{q.within_with(st, "self.lock")}')
    rr.floor('stores to the shared reader/writer state', n, 15, mod, cls)
    for c in q.attr_calls(cls, 'append'):
        if U(c.func) == 'self.logfiles.append':
            fn = enclosing_function(c)
            rr.ob('logfiles.append is protected by the lock', q.within_with(c, 'self.lock') or protected_fn(fn), mod, c, key='lock|append')


@rule('C13.R4', 'reader advance discipline in read(): the file index moves forward by exactly one at a time, an exhausted or vanished file is closed before the next one is opened, and the file opened is the one the index names')
def r4(rr, repo):
    mod, fn, paths = fn_paths(repo, 'read')
    rr.paths += len(paths)
    n = m = 0
    steps = []      # (is the read file None after the refresh?, stored index expression, node) of every advance that follows a refresh
    for p in paths:
        for e in p.events:
            if e.kind == 'store' and e.term == 'self.read_idx':
                n += 1
                before = p.events[:p.events.index(e)]
                # the stretch of the path that deals with the file being left: since it was opened / since the previous advance
                seg = max([i for i, x in enumerate(before) if (x.kind == 'call' and x.term == 'open') or (x.kind == 'store' and x.term == 'self.read_idx')] or [0])
                reads_ = [i for i, x in enumerate(before) if i >= seg and x.kind == 'call' and (x.term.endswith('.read') or x.term.endswith('.readline'))]
                refreshed = [x for x in before[(reads_[0] if reads_ else seg):] if x.kind == 'call' and x.term == 'self.refresh_logfiles']   # a refresh between finding the file exhausted and moving on
                vanished_ = any(k.startswith('raised-in-try@') for k, v in p.pc[:e.pc_len])
                if refreshed and not vanished_:
                    # the refresh either kept the reader on its (exhausted) file - go one past it - or, the file being gone, already moved it to the first newer
                    # file - continue THERE: the step after a refresh has to depend on which of the two happened
                    kept_atom = [v for k, v in p.pc[refreshed[-1].pc_len:e.pc_len] if k == 'isnone(self.read_file)']
                    steps.append((kept_atom[-1] if kept_atom else None, e.args[0], e.node))
                    # ... and a file the refresh kept is read once more before it is left: the writer may have appended its last record and rolled over between
                    # the empty read and the rescan; once the rescan shows a newer file this one is complete, so one more read settles it
                    after_ref = before[before.index(refreshed[-1]):]
                    reread = any(x.kind == 'call' and (x.term.endswith('.read') or x.term.endswith('.readline')) for x in after_ref)
                    gone = any(k == 'isnone(self.read_file)' and v is True for k, v in p.pc[refreshed[-1].pc_len:e.pc_len])
                    rr.ob('a file that is still listed after the refresh is read again before the reader moves past it (nothing appended between the empty read and the rescan is skipped)', reread or gone, mod, e.node,
                          witness=p.pc_text()[-200:], key='reread-before-leaving')
                else:
                    rr.ob('the reader index advances by exactly one', e.args[0] == 'self.read_idx + 1', mod, e.node, witness=e.args[0], key=f'advance|{e.args[0][:40]}')
            if e.kind == 'call' and e.term == 'open':
                m += 1
                rr.ob('the file opened for reading is logfiles[read_idx], read-only', e.args[0] == 'self.logfiles[self.read_idx].path' and e.args[1].strip('\'"') == 'rb', mod, e.node, witness=str(e.args), key='open-current')
        adv = [e for e in p.events if e.kind == 'store' and e.term == 'self.read_idx']
        empty = [v for kk, v in p.pc if kk.startswith('truthy(') and ('.readline()' in kk or '.read()' in kk)]
        if adv and empty and empty[-1] is False:
            closes = [e for e in p.events if e.kind == 'call' and e.term.endswith('.close')]
            nulls = [e for e in p.events if e.kind == 'store' and e.term == 'self.read_file' and e.args[0] == 'None']
            rr.ob('moving past an exhausted file closes it and forgets the handle', bool(closes) and bool(nulls), mod, adv[0].node, witness=p.pc_text()[-160:], key='close-exhausted')
    # after a refresh the step has to depend on what the refresh did: the stored expression itself mentions the read file (`+ (self.read_file is not None)`), or the
    # paths on which the refresh kept the file store a different step than those on which it dropped it. A test of self.read_file somewhere in between is not enough.
    if steps:
        in_expr = all('self.read_file' in ex for _, ex, _ in steps)
        kept = {ex for a, ex, _ in steps if a is False}
        gone = {ex for a, ex, _ in steps if a is True}
        by_branch = bool(kept) and bool(gone) and not (kept & gone) and not any(a is None for a, _, _ in steps)
        rr.ob('after a refresh the reader goes one past its file only if the refresh kept that file; if the refresh moved it (file deleted) it continues with the file it was moved to',
              in_expr or by_branch, mod, steps[0][2], witness='; '.join(sorted({f"{ex} [file kept: {('?' if a is None else not a)}]" for a, ex, _ in steps}))[:300], key='advance-after-refresh')
    rr.floor('index advances in read()', n, 2, mod, fn)
    rr.floor('opens in read()', m, 1, mod, fn)


@rule('C13.R5', 'refresh re-anchors the reader by identity: the open file is kept exactly when the same path is still listed; otherwise the reader moves to the first file newer than where it was (or to the end) and the stale handle is closed')
def r5(rr, repo):
    mod, fn, paths = fn_paths(repo, 'refresh_logfiles', unroll_for=1)
    rr.paths += len(paths)
    # a refresh looks at the directory: the file list it re-anchors the reader in is the one a scan has just produced - unconditionally, after the old position was noted and before the list is walked
    scans = [c for c in q.calls_in(fn, into_functions=False) if U(c.func) == 'self.scan_logfiles']
    walks = [n for n in walk_scope(fn) if isinstance(n, ast.For) and 'logfiles' in U(n.iter)]
    olds = [n for n in walk_scope(fn) if isinstance(n, ast.Assign) and 'old_' in U(n.targets[0])]
    oks = len(scans) == 1 and not q.guards_of(scans[0], stop=fn) and bool(walks) and scans[0].lineno < walks[0].lineno and all(o.lineno < scans[0].lineno for o in olds)
    rr.ob('refresh_logfiles rescans the directory (once, unconditionally, after noting where the reader was and before walking the new list)', oks, mod, scans[0] if scans else fn,
          witness=f'{len(scans)} scan call(s); list walked at line {walks[0].lineno if walks else None}', key='refresh-rescans')
    rows = set()
    for p in paths:
        same = [v for kk, v in p.pc if kk.startswith('eq(') and kk.endswith('.path)') and '__elem__' in kk]
        newer = None
        for kk, v in p.pc:
            if kk.startswith('ord(') and '.timestamp' in kk and '__elem__' in kk:
                inner = kk[4:-1]
                elem_first = inner.startswith('__elem__(')
                newer = (v if elem_first else {'<': '>', '>': '<', '=': '='}[v]) == '>'
        st = [e for e in p.events if e.kind == 'store' and e.term == 'self.read_idx']
        closes = [e for e in p.events if e.kind == 'call' and e.term.endswith('.close')]
        had_file = p.facts.get('isnone(self.read_file)') is False
        it = [e for e in p.events if e.kind == 'for']
        zero = bool(it) and it[0].args[0] == 'zero'
        if not st:
            rr.violated('refresh ends without re-anchoring the reader index', mod, fn, witness=p.pc_text()[-200:], key='no-store')
            continue
        val = st[-1].args[0]
        if same and same[0] is True:
            rows.add('same')
            rr.ob('same path still listed: the reader stays on it (index of that entry) and the open handle is kept', val.endswith('[0]') and '__elem__' in val and not closes, mod, st[-1].node, witness=f'{val[:60]} closes={len(closes)}', key='same-path')
        elif not zero and newer is True:
            rows.add('newer')
            rr.ob('file gone, a newer one exists: move to the first newer file and drop the stale handle', val.endswith('[0]') and '__elem__' in val and (bool(closes) == had_file), mod, st[-1].node, witness=f'{val[:60]} closes={len(closes)} had_file={had_file}', key='first-newer')
        elif zero or newer is False:
            rows.add('end')
            rr.ob('nothing newer: the reader is placed at the end and the stale handle dropped', val == 'len(self.logfiles)' and (bool(closes) == had_file), mod, st[-1].node, witness=f'{val[:60]} closes={len(closes)} had_file={had_file}', key='to-end')
    rr.floor('rows of the refresh decision table (same path / first newer / end)', len(rows), 3, mod, fn)
    # entry table: WHAT is looked for. A reader inside the list looks for the file it is on; a reader past the end (or with
    # no files) has no current file, so no listed path may match - it can only move on to a strictly newer file.
    cmp = [n for n in ast.walk(fn) if isinstance(n, ast.Compare) and len(n.ops) == 1 and isinstance(n.ops[0], ast.Eq) and
           any(isinstance(x, ast.Attribute) and x.attr == 'path' for x in (n.left, n.comparators[0])) and
           any(isinstance(x, ast.Name) for x in (n.left, n.comparators[0]))]
    if len(cmp) != 1:
        raise Unresolved(f'{mod.rel}: refresh_logfiles: cannot identify the path identity test ({len(cmp)} candidates)')
    ident = [x for x in (cmp[0].left, cmp[0].comparators[0]) if isinstance(x, ast.Name)][0].id
    inside = past = 0
    for p in paths:
        entry = [v for kk, v in p.pc if kk in ('ord(len(self.logfiles), self.read_idx)', 'ord(self.read_idx, len(self.logfiles))')]
        first = [kk for kk, v in p.pc if kk in ('ord(len(self.logfiles), self.read_idx)', 'ord(self.read_idx, len(self.logfiles))')]
        b = [e for e in p.events if e.kind == 'bind' and e.term == ident]
        if not entry or not b:
            rr.unresolved(f'refresh_logfiles: entry test or the binding of {ident} not found on a path', mod, fn, witness=p.pc_text()[:160], key='entry-shape')
            continue
        within = (entry[0] == '>') if first[0].startswith('ord(len(') else (entry[0] == '<')
        val = b[0].args[0]
        if within:
            inside += 1
            rr.ob('reader inside the list: the identity looked for is the path of the entry at the reader index', 'self.read_idx' in val and val.startswith('self.logfiles['), mod, b[0].node, witness=val, key='ident-current')
        else:
            past += 1
            rr.ob('reader past the end / empty list: nothing is open, so the identity looked for matches no listed path (None / 0) - an already delivered file is never re-opened from its start',
                  val in ('None', '0', 'False', "''"), mod, b[0].node, witness=val, key='ident-none')
    rr.floor('refresh paths entered inside the list / past the end', min(inside, past), 1, mod, fn)


# ---------------------------------------------------------------------------------------------- framing, accounting, decoding

def _mode_of(p: Path):
    """the log mode a path of write()/read() is about: the literal its mode atoms select ('bin' when every test failed)"""
    sel = [k for k, v in p.pc if k.startswith("eq('") and k.endswith(('self.mode)', ', mode)')) and v is True]
    if sel:
        return sel[0][4:sel[0].index("'", 4)]
    neg = {k[4:k.index("'", 4)] for k, v in p.pc if k.startswith("eq('") and k.endswith(('self.mode)', ', mode)')) and v is False}
    rest = {'bin', 'binl', 'txt', 'json'} - neg
    return rest.pop() if len(rest) == 1 else None


def _parse(term: str):
    try:
        return ast.parse(term, mode='eval').body
    except SyntaxError:
        return None


def _is_nl(n):
    return isinstance(n, ast.Constant) and n.value in (b'\n', '\n')


@rule('C13.R6', 'write(): a record reaches the file in ONE write call, framed by exactly one newline terminator in the line modes (none in bin), the sizes that drive roll-over and pruning are the '
                'length of exactly those bytes, the file is rolled when it reaches file_size, a new file is listed only once it could be opened, and a closed log refuses writes')
def r6(rr, repo):
    mod, fn, paths = fn_paths(repo, 'write')
    rr.paths += len(paths)
    n = 0
    modes = set()
    for p in paths:
        if p.outcome is not None and p.outcome[0] == 'raise':
            closed = p.facts.get('is(False, self.write_file)')
            wr = [e for e in p.events if e.kind == 'call' and e.term.endswith('.write')]
            rr.ob('a closed log raises and writes nothing', closed is True and not wr, mod, fn, witness=p.pc_text()[-120:], key='closed-raises')
            continue
        failed_open = any(k.startswith('raised-in-try@') for k, v in p.pc)
        wr = [e for e in p.events if e.kind == 'call' and e.term.endswith('.write') and not e.term.startswith('logger')]
        stores = [e for e in p.events if e.kind == 'store']
        if failed_open:
            rr.ob('a log file that cannot be created leaves the log state untouched (nothing listed, nothing counted) and reports 0 bytes', not wr and not stores and not [e for e in p.events if e.kind == 'call' and e.term.endswith('.append')]
                  and p.outcome is not None and p.outcome[0] == 'return' and p.outcome[1] is not None and U(p.outcome[1]) == '0', mod, fn, witness=p.outcome_text()[:80], key='open-failed')
            continue
        if p.facts.get('is(False, self.write_file)') is not False:
            continue
        n += 1
        mode = _mode_of(p)
        modes.add(mode)
        rr.ob('every completed write() hands the record to the file in exactly one write call', len(wr) == 1, mod, wr[0].node if wr else fn, witness=f'{len(wr)} write calls', key='one-write')
        if len(wr) != 1 or mode is None:
            if mode is None:
                rr.unresolved('write(): cannot tell which mode a path is about', mod, fn, witness=p.pc_text()[:120], key='mode')
            continue
        W = _parse(wr[0].args[0]) if wr[0].args else None
        wtxt = wr[0].args[0] if wr[0].args else ''
        if W is None:
            rr.unresolved('write(): the written value is not an expression the rule can read', mod, wr[0].node, witness=wtxt[:80], key='written-term')
            continue
        # framing
        if mode in ('txt', 'json', 'binl'):
            ok = isinstance(W, ast.BinOp) and isinstance(W.op, ast.Add) and _is_nl(W.right) and not (isinstance(W.left, ast.BinOp) and _is_nl(W.left.right))
            rr.ob(f'{mode}: what is written is <payload> + one newline terminator', ok, mod, wr[0].node, witness=wtxt[:100], key=f'frame|{mode}')
            if ok:
                pay = W.left
                if isinstance(pay, ast.Call) and isinstance(pay.func, ast.Attribute) and pay.func.attr == 'encode':
                    pay = pay.func.value
                if isinstance(pay, ast.Call) and isinstance(pay.func, ast.Attribute) and pay.func.attr == 'join':
                    rr.ob(f'{mode}: several records given at once are separated by the same newline', _is_nl(pay.func.value), mod, wr[0].node, witness=U(pay)[:80], key=f'join|{mode}')
                if mode == 'json':
                    jd = [c for c in ast.walk(W) if isinstance(c, ast.Call) and U(c.func) in ('json_dumps', 'json.dumps', 'dumps')]
                    okj = len(jd) == 1 and q.kwarg(jd[0], 'indent') is None
                    rr.ob('json: one object per line (no indent, so the serialisation cannot contain a raw newline)', okj, mod, wr[0].node, witness=U(jd[0])[:100] if jd else wtxt[:80], key='json-one-line')
        else:
            ok = not any(isinstance(x, ast.BinOp) for x in ast.walk(W))
            rr.ob('bin: the bytes are written as given (nothing appended)', ok, mod, wr[0].node, witness=wtxt[:100], key='frame|bin')
        # accounting: S = number of BYTES of exactly W. len() counts bytes only for bytes / bytearray; for any other buffer (a memoryview over an
        # array of wider items) len() is the item count and .nbytes the byte count
        is_bytes = [v for k, v in p.pc if k.startswith('truthy(isinstance(data, (bytes, bytearray)') or k.startswith('truthy(isinstance(data, bytes')]
        byteslike = mode != 'bin' or (bool(is_bytes) and is_bytes[-1] is True)
        S = {f'len({wtxt})', f'{wtxt}.nbytes'} if byteslike else {f'{wtxt}.nbytes'}
        tot = [e for e in stores if e.term == 'self.logfiles_size']
        last = [e for e in stores if e.term == 'self.logfiles[-1]']
        okt = bool(tot) and any(tot[-1].args[0] == f'self.logfiles_size + {s}' for s in S)
        rr.ob('the running total grows by the number of bytes written', okt, mod, tot[-1].node if tot else fn, witness=tot[-1].args[0][:120] if tot else 'no store', key='account-total')
        lv = _parse(last[-1].args[0]) if last else None
        okl = isinstance(lv, ast.Call) and len(lv.args) == 3 and isinstance(_parse(U(lv.args[2])), ast.BinOp) and any(U(lv.args[2]).endswith(f'.size + {s}') for s in S)
        rr.ob("the newest file's recorded size grows by the number of bytes written (it decides the roll-over and what tell() reports at the end)", okl, mod, last[-1].node if last else fn,
              witness=last[-1].args[0][:140] if last else 'no store', key='account-file')
        if last and tot:
            rr.ob('the record is written before it is counted', p.events.index(wr[0]) < p.events.index(tot[-1]), mod, wr[0].node, key='write-then-count')
        # return value
        o = p.outcome
        rr.ob('write() returns what the file write returned', o is not None and o[0] == 'return' and o[1] is not None and U(o[1]) == f'{wr[0].term}({wtxt})', mod, fn, witness=p.outcome_text()[:120], key='returns-written')
        # roll-over
        roll = [(k, v) for k, v in p.pc if k.startswith('ord(self.file_size, ') and '.size + ' in k]
        closes = [e for e in p.events if e.kind == 'call' and e.term.endswith('.close') and p.events.index(e) > p.events.index(wr[0])]
        forget = [e for e in stores if e.term == 'self.write_file' and e.args[0] == 'None' and p.events.index(e) > p.events.index(wr[0])]
        if not roll:
            rr.violated('a completed write() does not compare the file size with file_size (the log never rolls over)', mod, fn, witness=p.pc_text()[-160:], key='roll-test')
        else:
            full = roll[-1][1] in ('<', '=')
            rr.ob('the file is closed and forgotten exactly when its size reached file_size (the next write starts a new file)', (bool(closes) and bool(forget)) == full, mod, fn,
                  witness=f'{roll[-1][0][:90]} {roll[-1][1]} closes={len(closes)} forget={len(forget)}', key=f'roll|{"full" if full else "room"}')
        # new file
        newf = p.facts.get('isnone(self.write_file)')
        opens = [e for e in p.events if e.kind == 'call' and e.term == 'open']
        apps = [e for e in p.events if e.kind == 'call' and e.term == 'self.logfiles.append']
        if newf is True:
            ok = len(opens) == 1 and len(apps) == 1 and opens[0].args[0] == f'{apps[0].args[0]}.path' and 'self.new_logfile(' in apps[0].args[0] and p.events.index(opens[0]) < p.events.index(apps[0]) \
                and opens[0].args[1].strip('\'"') in ('wb', 'xb')
            rr.ob('no file open: the file named by new_logfile() is created for binary writing and listed after the open succeeded', ok, mod, opens[0].node if opens else fn,
                  witness=f'opens={[e.args for e in opens]} appends={[e.args for e in apps]}'[:160], key='new-file')
        elif newf is False:
            rr.ob('a file is open: no other file is created or listed', not opens and not apps, mod, fn, key='reuse-file')
    rr.floor('completed write() paths', n, 8, mod, fn)
    rr.ob('all four modes are framed', modes >= {'bin', 'binl', 'txt', 'json'}, mod, fn, witness=str(sorted(m or '?' for m in modes)), key='modes')


@rule('C13.R7', 'read(): the index stays inside the list whenever a file is opened, giving up (None) leaves the reader where it was, returned data is followed by no state change, the list is refreshed at most once per call, '
                'and each mode strips exactly the terminator write() added')
def r7(rr, repo):
    mod, fn, paths = fn_paths(repo, 'read', unroll_while=2)
    rr.paths += len(paths)
    n_open = n_none = n_data = n_cont = 0
    for p in paths:
        evs = p.events
        rd = [e for e in evs if e.kind == 'call' and (e.term.endswith('.read') or e.term.endswith('.readline'))]
        # what the last read returned decides: data -> return it; nothing -> move on / give up
        def truth(e):
            # the data of a read is what it returned, or - for delimited modes - the whole records of it (`d[:d.rfind(b'\\n') + 1]`: an unterminated tail the writer is still
            # producing is put back); "it gave something" is the truth of whichever the code tested last
            d_ = f'{e.term}()'
            v = [val for k, val in p.pc if k in (f'truthy({d_})', f"truthy({d_}[:{d_}.rfind(b'\\n') + 1])")]
            return v[-1] if v else None
        if p.outcome is not None and p.outcome[0] == 'loopcut':
            # the loop goes round again: an exhausted (or vanished) file was left behind - closed, forgotten, index advanced by one and still inside the list
            n_cont += 1
            vanished_ = any(k.startswith('raised-in-try@') for k, v in p.pc)
            st = [e for e in evs if e.kind == 'store' and e.term == 'self.read_idx']
            rf = [e for e in evs if e.kind == 'call' and e.term == 'self.refresh_logfiles']
            rr.ob('the reader moves to another file only by storing the advanced index (or through a refresh, which re-anchors it)', bool(st) or bool(rf), mod, fn, witness=p.pc_text()[-160:], key='continue-stores-index')
            if st or rf:
                idx = 'self.read_idx' if rf and (not st or evs.index(rf[-1]) > evs.index(st[-1])) else st[-1].args[0]
                rel = [v for k, v in p.pc if k == f'ord(len(self.logfiles), {idx})']
                rr.ob('the loop continues only with an index that was tested to lie inside the list', bool(rel) and rel[-1] == '>', mod, (st or rf)[-1].node, witness=f'{idx}: {rel[-1:] or "untested"}', key='continue-in-range')
            if rd:
                rr.ob('a file is left behind only when it had nothing more to give', truth(rd[-1]) is False, mod, rd[-1].node, witness=p.pc_text()[-160:], key='leave-only-exhausted')
        # a. bounds
        for e in evs:
            if e.kind == 'call' and e.term == 'open' and e.args:
                m = re.match(r'self\.logfiles\[(.+)\]\.path$', e.args[0])
                if not m:
                    rr.unresolved('read(): a file is opened whose name does not come from the file list', mod, e.node, witness=e.args[0][:80], key='open-source')
                    continue
                idx = m.group(1)
                n_open += 1
                rel = [v for k, v in p.pc[:e.pc_len] if k == f'ord(len(self.logfiles), {idx})']
                inv = [v for k, v in p.pc[:e.pc_len] if k == f'ord({idx}, len(self.logfiles))']
                ok = (bool(rel) and rel[-1] == '>') or (bool(inv) and inv[-1] == '<')
                rr.ob('a file is opened only where the index was tested to lie inside the list (index < number of files)', ok, mod, e.node, witness=p.pc_text(e.pc_len)[-200:], key='index-in-range')
        o = p.outcome
        if o is None:
            rr.violated('read() can fall off its end without returning (a record that was read is dropped and None is delivered)', mod, fn, witness=p.pc_text()[-160:], key='falls-off')
            continue
        if o[0] != 'return':
            continue
        vanished = any(k.startswith('raised-in-try@') for k, v in p.pc)
        refreshes = [e for e in evs if e.kind == 'call' and e.term == 'self.refresh_logfiles']
        auto = [i for i, (k, v) in enumerate(p.pc) if k == 'truthy(self.autorefresh)' and v is True]
        if auto:
            # an auto-refreshing reader that ran out of files looks for new ones before it gives up or goes on
            rr.ob('an auto-refreshing reader at the end of its list refreshes the list (a follower sees files created after it was opened)', bool(refreshes), mod, fn, witness=p.pc_text()[-160:], key='autorefresh-refreshes')
        rr.ob('the file list is refreshed at most once per call', len(refreshes) <= 1, mod, fn, witness=f'{len(refreshes)} refreshes', key='refresh-once') if refreshes else None
        for r_ in refreshes:
            ar = [v for k, v in p.pc[:r_.pc_len] if k == 'truthy(self.autorefresh)']
            rr.ob('the list is refreshed only for an auto-refreshing reader', bool(ar) and ar[-1] is True, mod, r_.node, key='refresh-guard')
        isnone = o[1] is None or (isinstance(o[1], ast.Constant) and o[1].value is None)
        if isnone:
            n_none += 1
            closes = [e for e in evs if e.kind == 'call' and e.term.endswith('.close')]
            st = [e for e in evs if e.kind == 'store' and e.term in ('self.read_idx', 'self.read_file')]
            if vanished:
                continue
            # state may only have moved forward past an EXHAUSTED file that has a successor (close + advance happen together); the final give-up itself changes nothing
            last_state = max([evs.index(e) for e in closes + st], default=-1)
            tail_reads = [e for e in evs[last_state + 1:] if e.kind == 'call' and (e.term.endswith('.read') or e.term.endswith('.readline'))]
            ok = (not closes and not st) or bool(tail_reads) or bool([e for e in evs[last_state + 1:] if e.kind == 'call' and e.term == 'open'])
            rr.ob('giving up (None) does not move the reader: the file it is on stays open and current, so data appended later is found', ok, mod, fn, witness=p.pc_text()[-200:], key='none-keeps-position')
        else:
            n_data += 1
            reads = [e for e in evs if e.kind == 'call' and (e.term.endswith('.read') or e.term.endswith('.readline'))]
            if not reads:
                rr.violated('read() returns data that was not read from a log file', mod, fn, witness=p.outcome_text()[:100], key='data-source')
                continue
            rr.ob('data is returned only when the last read produced some', truth(reads[-1]) is True, mod, reads[-1].node, witness=p.pc_text()[-120:], key='data-nonempty')
            after = [e for e in evs[evs.index(reads[-1]) + 1:] if (e.kind == 'store' and e.term in ('self.read_idx', 'self.read_file')) or (e.kind == 'call' and e.term.endswith('.close'))]
            rr.ob('after the read that produced the returned data the reader state is left alone (the rest of the file is still to come)', not after, mod, reads[-1].node, key='data-keeps-position')
            mode = _mode_of(p)
            blk = reads[-1].term.endswith('.read')
            d = reads[-1].term + '()'
            t = U(o[1]).replace(f"{d}[:{d}.rfind(b'\\n') + 1]", d)      # the whole records of what was read (C13.R15 looks at how the unterminated tail is put back)
            want = {
                ('bin', True): {d}, ('bin', False): {d},
                ('binl', True): {f"{d}.split(b'\\n')[:-1]"}, ('binl', False): {f'{d}[:-1]'},
                ('txt', True): {f"{d}.decode().split('\\n')[:-1]"}, ('txt', False): {f'{d}[:-1].decode()'},
                ('json', True): {f"[json_loads(obj) for obj in {d}.decode().split('\\n')[:-1]]"}, ('json', False): {f'json_loads({d}[:-1].decode())'},
            }.get((mode, blk))
            if mode == 'bin':
                rr.ob('bin: always read as a block', blk, mod, reads[-1].node, key='bin-block')
            if want is None:
                rr.unresolved('read(): cannot tell which mode a data path is about', mod, fn, witness=p.pc_text()[:100], key='decode-mode')
            elif t in want:
                rr.holds(f'{mode}/{"block" if blk else "line"}: exactly the one terminator write() added is stripped', mod, fn, witness=t[:100], key=f'decode|{mode}|{blk}')
            else:
                strips = t.count('[:-1]')
                bad = (mode != 'bin' and strips != 1) or (mode == 'bin' and t != d) or (mode in ('txt', 'json') and '.decode()' not in t) or (mode == 'json' and 'json_loads(' not in t) or \
                      (mode in ('bin', 'binl') and '.decode()' in t)
                if bad:
                    rr.violated(f'{mode}/{"block" if blk else "line"}: the returned value does not undo the framing of write() (one terminator stripped, text decoded, json parsed)', mod, fn, witness=t[:120], key=f'decode|{mode}|{blk}')
                else:
                    rr.unresolved(f'{mode}/{"block" if blk else "line"}: unrecognised decoding expression', mod, fn, witness=t[:120], key=f'decode|{mode}|{blk}')
    rr.floor('paths on which the read loop goes round again', n_cont, 4, mod, fn)
    rr.floor('opens in read()', n_open, 2, mod, fn)
    rr.floor('give-up paths of read()', n_none, 4, mod, fn)
    rr.floor('data paths of read()', n_data, 8, mod, fn)


@rule('C13.R8', 'the files a writer creates are the files a scan finds: the name pattern of scan_logfiles accepts exactly the shape new_logfile gives names, the timestamp is recovered by the inverse scaling, '
                'only regular files are listed, sizes come from the file system and the list is sorted by timestamp')
def r8(rr, repo):
    import re._parser as sp
    import re._constants as sc
    mod = repo.module(RL)
    _, init = repo.find(f'{RL}::RollLog.__init__')
    _, scan = repo.find(f'{RL}::RollLog.scan_logfiles')
    _, newf = repo.find(f'{RL}::RollLog.new_logfile')
    # 1. name template
    lam = [st for st in mod.tree.body if isinstance(st, ast.Assign) and isinstance(st.value, ast.Lambda) and isinstance(st.targets[0], ast.Name) and isinstance(st.value.body, ast.JoinedStr) and
           any(c for c in ast.walk(newf) if isinstance(c, ast.Call) and U(c.func) == st.targets[0].id)]
    if len(lam) != 1:
        raise Unresolved(f'{RL}: cannot identify the file-name template used by new_logfile ({len(lam)} candidates)')
    js = lam[0].value.body
    tmpl = []
    for v in js.values:
        if isinstance(v, ast.Constant):
            tmpl += list(v.value)
        else:
            spec = U(v.format_spec).strip('f\'"') if v.format_spec is not None else ''
            src = U(v.value)
            if re.fullmatch(r'int\(\w+ \* 1_?000_?000\)', src) or re.fullmatch(r'int\(\w+ \* 1000000\)', src):
                tmpl.append(('US', spec))
            elif re.fullmatch(r'\w+\.(month|day|hour|minute|second)', src):
                tmpl.append(('D', spec))
            elif re.fullmatch(r'\w+\.year', src):
                tmpl.append(('Y', spec))
            else:
                tmpl.append(('VAR', src))
    # 2. the pattern
    pat = [n for n in ast.walk(init) if isinstance(n, ast.Assign) and any(U(t) == 'self.re_logpath' for t in n.targets)]
    if len(pat) != 1 or not (isinstance(pat[0].value, ast.Call) and U(pat[0].value.func) == 're.compile'):
        raise Unresolved(f'{RL}: cannot identify the log file name pattern (self.re_logpath)')
    parg = pat[0].value.args[0]
    parts = parg.values if isinstance(parg, ast.JoinedStr) else [parg]
    rx = ''
    escaped = []
    for v in parts:
        if isinstance(v, ast.Constant):
            rx += v.value
        elif isinstance(v, ast.FormattedValue) and isinstance(v.value, ast.Call) and U(v.value.func) == 're.escape':
            escaped.append(U(v.value.args[0]))
            rx += f'(?P<v{len(escaped)}>V)'
        else:
            raise Unresolved(f'{RL}: the name pattern interpolates something other than re.escape(...)')
    try:
        items = list(sp.parse(rx))
    except Exception as exc:
        raise Unresolved(f'{RL}: name pattern does not parse: {exc}')
    toks = []
    for op, av in items:
        if op is sc.AT:
            toks.append('^' if av is sc.AT_BEGINNING else '$')
        elif op is sc.LITERAL:
            toks.append(chr(av))
        elif op is sc.SUBPATTERN and av[0] is not None and list(av[3]) and list(av[3])[0][0] is sc.LITERAL and chr(list(av[3])[0][1]) == 'V':
            toks.append(('VAR', escaped[len([t for t in toks if isinstance(t, tuple) and t[0] == 'VAR'])]))
        elif op is sc.SUBPATTERN:
            inner = list(av[3])
            if len(inner) == 1 and inner[0][0] is sc.MAX_REPEAT and list(inner[0][1][2])[0] == (sc.IN, [(sc.CATEGORY, sc.CATEGORY_DIGIT)]):
                toks.append(('DIGITS', inner[0][1][0], inner[0][1][1], 'group'))
            else:
                toks.append(('GROUP', U(ast.Constant(str(inner)))[:40]))
        elif op is sc.MAX_REPEAT:
            lo, hi, sub = av
            sub = list(sub)
            if sub == [(sc.IN, [(sc.CATEGORY, sc.CATEGORY_DIGIT)])]:
                toks.append(('DIGITS', lo, hi))
            elif (len(sub) == 1 and sub[0][0] is sc.SUBPATTERN) or (lo == 0 and hi == 1 and sub and sub[-1] == (sc.LITERAL, ord('/'))):
                toks.append(('OPTDIR', lo, hi))      # optional directory part in front of the name
            else:
                toks.append(('REP', lo, hi))
        elif op is sc.IN:
            toks.append(('IN', ''.join(sorted(chr(v) for o_, v in av if o_ is sc.LITERAL))))
        else:
            toks.append((str(op),))
    # compare
    ti = [t for t in tmpl]
    pi = [t for t in toks if t not in ('^', '$') and not (isinstance(t, tuple) and t[0] == 'OPTDIR')]
    rr.ob('the name pattern is anchored at both ends', toks[:1] == ['^'] and toks[-1:] == ['$'], mod, pat[0], witness=str(toks[:2] + toks[-1:]), key='pattern-anchored')
    ok = True
    why = ''
    i = j = 0
    while i < len(ti) and j < len(pi):
        a, b = ti[i], pi[j]
        if isinstance(a, str):
            if a != b:
                ok, why = False, f'literal {a!r} vs {b!r}'
                break
            i += 1; j += 1
        elif a[0] == 'VAR':
            if a[1] == 'tzs':
                if not (isinstance(b, tuple) and b[0] == 'IN' and set(b[1]) == {'+', '-'} and j + 1 < len(pi) and pi[j + 1][:3] == ('DIGITS', 4, 4)):
                    ok, why = False, f'time-zone suffix vs {pi[j:j + 2]}'
                    break
                i += 1; j += 2
            else:
                if not (isinstance(b, tuple) and b[0] == 'VAR'):
                    ok, why = False, f'{a} vs {b}'
                    break
                i += 1; j += 1
        elif a[0] == 'US':
            if not (isinstance(b, tuple) and b[0] == 'DIGITS' and b[1] <= 1 and b[2] >= 20 and len(b) == 4):
                ok, why = False, f'microsecond field vs {b}'
                break
            i += 1; j += 1
        elif a[0] in ('D', 'Y'):
            width = 4 if a[0] == 'Y' else int(a[1].lstrip('0') or 0) if a[1] else 0
            if not (isinstance(b, tuple) and b[0] == 'DIGITS' and b[1] == b[2] == width):
                ok, why = False, f'{a} vs {b}'
                break
            i += 1; j += 1
    if ok and (i != len(ti) or j != len(pi)):
        ok, why = False, f'lengths differ: template {len(ti)} fields, pattern {len(pi)}'
    rr.ob('every name new_logfile() can produce matches the scan pattern field by field (prefix, microseconds, date, time, zone, suffix)', ok, mod, pat[0], witness=why or f'{len(ti)} fields agree', key='name-agreement')
    # prefix / suffix are the fixed-up ones on both sides
    calls = [c for c in ast.walk(newf) if isinstance(c, ast.Call) and U(c.func) == lam[0].targets[0].id]
    okp = bool(calls) and len(calls[0].args) == 5 and U(calls[0].args[3]) == 'self.prefix' and U(calls[0].args[4]) == 'self.suffix' and escaped == ['prefix', 'suffix']
    stp = {U(t): U(n.value) for n in ast.walk(init) if isinstance(n, ast.Assign) for t in n.targets}
    okp = okp and stp.get('self.prefix', '').startswith('prefix = ') is False and 'self.prefix' in stp and 'self.suffix' in stp
    rr.ob('writer and scanner use the same (fixed-up) prefix and suffix', okp, mod, pat[0], witness=f'escaped={escaped}', key='same-affixes')
    # 2b. the writer lists a new file under exactly the timestamp its name encodes (what scan / seek recover from the name): a raw float that
    #     differs from it by a fraction of a microsecond makes seek(tell()) treat the reader's own file as "newer" and start it again
    rets = [n for n in ast.walk(newf) if isinstance(n, ast.Return) and isinstance(n.value, ast.Call) and U(n.value.func) == 'RollLogFile' and n.value.args]
    rr.floor('RollLogFile results of new_logfile', len(rets), 1, mod, newf)
    for r_ in rets:
        a0 = r_.value.args[0]
        nm = [c for c in ast.walk(r_.value) if isinstance(c, ast.Call) and U(c.func) == lam[0].targets[0].id]
        tsarg = U(nm[0].args[1]) if nm and len(nm[0].args) > 1 else None
        canon = tsarg is not None and re.sub(r'[_\s]', '', U(a0)) == re.sub(r'[_\s]', '', f'int({tsarg} * 1000000) / 1000000')
        if canon:
            rr.holds('a new file is listed under the timestamp its name encodes (int(ts * 1 000 000) / 1 000 000)', mod, r_, witness=U(a0), key='listed-as-named')
        elif tsarg is not None and U(a0) == tsarg:
            rr.violated('a new file is listed under the raw timestamp while its name (and so every scan, tell and seek) carries the truncated microseconds: seek(tell()) on the writer\'s own log '
                        'compares the two, finds the file "newer" than its own name and delivers it again from the start', mod, r_, witness=f'listed: {U(a0)}  named from: {tsarg}', key='listed-as-named')
        else:
            rr.unresolved('new_logfile lists the file under a timestamp whose relation to the name is not recognised', mod, r_, witness=U(a0)[:100], key='listed-as-named')
    # 3. inverse scaling
    ts = [c for c in ast.walk(scan) if isinstance(c, ast.Call) and U(c.func) == 'RollLogFile']
    rr.floor('RollLogFile constructions in scan_logfiles', len(ts), 1, mod, scan)
    for c in ts:
        a0 = U(c.args[0]) if c.args else ''
        rr.ob('the timestamp of a scanned file is its first name field divided by 1 000 000 (the inverse of the writer)', re.fullmatch(r'int\(\w+\.group\(1\)\) / 1_?000_?000', a0) is not None, mod, c, witness=a0, key='inverse-scale')
        a2 = U(c.args[2]) if len(c.args) > 2 else ''
        if len(c.args) > 2 and isinstance(c.args[2], ast.Name):       # a local bound from the file system just before
            b_ = [n for n in ast.walk(scan) if (isinstance(n, ast.Assign) and U(n.targets[0]) == a2) or (isinstance(n, ast.NamedExpr) and U(n.target) == a2)]
            a2 = U(b_[0].value) if len(b_) == 1 else a2
        rr.ob('the size of a scanned file comes from the file system', 'os.stat(' in a2 and 'st_size' in a2 or 'getsize(' in a2, mod, c, witness=a2, key='size-from-fs')
    # the directory is pruned by the writer while a reader lists it: a file may vanish between the listing and the look at its size - that must skip the file, not fail the scan
    # (a reader restart, or the refresh inside read(), would otherwise raise FileNotFoundError although its head file and its position are fine)
    stats = [c for c in ast.walk(scan) if isinstance(c, ast.Call) and U(c.func) in ('os.stat', 'os.path.getsize')]
    rr.floor('looks at the size of a listed file', len(stats), 1, mod, scan)
    for c in stats:
        tries = [a for a in ancestors(c) if isinstance(a, ast.Try) and any(x is c for st_ in a.body for x in ast.walk(st_))]
        caught = any(h.type is None or any(nm in U(h.type) for nm in ('FileNotFoundError', 'OSError', 'Exception')) for t in tries for h in t.handlers)
        skips = any(isinstance(h.body[-1], ast.Continue) for t in tries for h in t.handlers if h.body)
        rr.ob('... skipped for good: the handler goes on with the next name (it does not fall through to listing the file with a size left over from another one)', (not caught) or skips, mod, c,
              witness='the handler ends in `continue`' if skips else 'the handler does not end in `continue`', key='scan-vanishing-file-skipped')
        rr.ob('a file that vanishes between the directory listing and the look at its size is skipped (the scan does not fail)', caught, mod, c, witness=U(c)[:60] + ('' if caught else ' is not inside a try that catches FileNotFoundError'), key='scan-survives-vanishing-file')
        g = q.guards_of(c, stop=scan)
        gt = ' && '.join(U(t) for t, pol in g if pol)
        rr.ob('only regular files whose name matches the pattern are listed', 'os.path.isfile(' in gt and '.match(' in gt, mod, c, witness=gt[:120], key='scan-filter')
    # the listing itself races with the writer's roll-overs: one listing can hold file n+1 and lack file n (entries added during a readdir scan may or may not show up); a follower that goes on
    # in n+1 never comes back to n. What is taken from a listing is bounded by the newest file of an EARLIER listing: everything up to there existed before the later listing began.
    lists = [c for c in ast.walk(scan) if isinstance(c, ast.Call) and U(c.func) in ('os.listdir', 'os.scandir')]
    rr.floor('directory listings in the scan', len(lists), 1, mod, scan)
    loops = [n for n in walk_scope(scan) if isinstance(n, ast.For) and any(x in lists for x in ast.walk(n.iter))]
    if len(lists) == 1:
        rr.ob('the files taken from a listing are bounded by the newest file of an earlier listing (a single listing can have a hole behind its newest entries)', False, mod, lists[0],
              witness=f'{U(lists[0])} is the only listing', key='listing-complete-prefix')
    elif len(loops) == 1 and len(lists) == 2:
        lp = loops[0]
        other = [c for c in lists if not any(x is c for x in ast.walk(lp.iter))]
        bound = [n for n in walk_scope(scan) if isinstance(n, ast.Assign) and any(x is other[0] for x in ast.walk(n.value)) and 'max(' in U(n.value) and n.lineno < lp.lineno] if other else []
        bname = U(bound[0].targets[-1]) if bound else None
        tests = [t for st_ in lp.body if isinstance(st_, ast.If) for t in ast.walk(st_.test) if isinstance(t, ast.Compare) and len(t.ops) == 1 and isinstance(t.ops[0], (ast.LtE, ast.Lt)) and U(t.comparators[0]) == bname]
        rr.ob('the files taken from a listing are bounded by the newest file of an earlier listing (a single listing can have a hole behind its newest entries)', bool(bound) and bool(tests) and isinstance(tests[0].ops[0], ast.LtE),
              mod, lp, witness=f'bound: {U(bound[0])[:100] if bound else None}; test: {U(tests[0]) if tests else None}', key='listing-complete-prefix')
    else:
        rr.unresolved('how the scan combines its directory listings was not recognised', mod, lists[0], witness=f'{len(lists)} listings, {len(loops)} loops over one', key='listing-complete-prefix')
    sorts = [c for c in ast.walk(scan) if isinstance(c, ast.Call) and isinstance(c.func, ast.Attribute) and c.func.attr == 'sort' and not c.keywords] + \
            [c for c in ast.walk(scan) if isinstance(c, ast.Call) and U(c.func) == 'sorted' and not c.keywords]
    cdef = repo.find(f'{RL}::RollLogFile')[1]
    first = [st.target.id for st in cdef.body if isinstance(st, ast.AnnAssign)][:1]
    rr.ob('the list is sorted and the sort key starts with the timestamp (first field of RollLogFile)', bool(sorts) and first == ['timestamp'], mod, scan, witness=f'sorts={len(sorts)} first field={first}', key='sorted-by-time')
    stores = {U(t): U(n.value) for n in ast.walk(scan) if isinstance(n, ast.Assign) for t in n.targets}
    rr.ob('the scan replaces both the list and the running total', 'self.logfiles' in stores and 'self.logfiles_size' in stores, mod, scan, witness=str({k: v for k, v in stores.items() if k.startswith('self.')}), key='scan-stores')
    tot = stores.get('self.logfiles_size')
    acc = [n for n in ast.walk(scan) if (isinstance(n, ast.AugAssign) and isinstance(n.op, ast.Add) and U(n.target) == tot) or
           (isinstance(n, ast.Assign) and len(n.targets) == 1 and U(n.targets[0]) == tot and isinstance(n.value, ast.BinOp) and isinstance(n.value.op, ast.Add) and tot in (U(n.value.left), U(n.value.right)))]
    rr.ob('the running total is the sum of the listed sizes', bool(acc), mod, scan, key='scan-total')


@rule('C13.R9', 'a position taken with tell() names the next unread byte, so seek(tell()) and a restart from the head file deliver nothing twice: current file and its own offset inside the list, '
                'last file and its size past the end (shares C14.R6)')
def r9(rr, repo):
    from .c14 import r6 as c14r6
    c14r6(rr, repo)


@rule('C13.R10', "'end' is a place IN the newest file, not past it: seek(('end', ..)) leaves the reader in the last listed file, opened and positioned at its end (so that what the writer appends to that file later is read; "
                 "a reader parked past the list is only ever shown NEWER files), and the position every log starts from is that same 'end'")
def r10(rr, repo):
    mod, fn, paths = fn_paths(repo, 'seek')
    rr.paths += len(paths)
    n = 0
    for p in paths:
        if not any(k in ("eq('end', pos[0])", "eq(pos[0], 'end')") and v is True for k, v in p.pc):
            continue
        if p.outcome and p.outcome[0] == 'loopcut':     # a loop (the backward search for the last record boundary) cut at the unrolling bound: not an exit of the method
            continue
        some = p.facts.get('truthy(self.logfiles)')
        vanished = any(k.startswith('raised-in-try@') for k, v in p.pc)
        stores = [e for e in p.events if e.kind in ('store', 'augstore') and e.term == 'self.read_idx']
        final = stores[-1].args[0].replace(' ', '') if stores else None
        if some is True and not vanished:
            n += 1
            opens = [e for e in p.events if e.kind == 'call' and e.term == 'open']
            at_end = [e for e in p.events if e.kind == 'call' and e.term.endswith('.seek') and [a.strip() for a in e.args] in (['0', '2'], ['0', 'os.SEEK_END'], ['0', 'SEEK_END'])]
            kept = [e for e in p.events if e.kind == 'store' and e.term == 'self.read_file' and e.args[0].startswith('open(')]
            ok = len(opens) == 1 and opens[0].args[0].replace(' ', '') == 'self.logfiles[-1].path' and opens[0].args[1].strip('\'"') == 'rb' and bool(at_end) and bool(kept) and final == 'len(self.logfiles)-1'
            rr.ob("seek to 'end' with files present: the newest file is opened read-only, positioned at its end, kept as the read file, and the index names it", ok, mod, (opens[0].node if opens else fn),
                  witness=f'open: {[e.args for e in opens]}; seek to end: {bool(at_end)}; handle kept: {bool(kept)}; index: {final}', key='end-in-newest-file')
        elif some is False:
            rr.ob("seek to 'end' of an empty log: index 0 (== the number of files), nothing opened", final == 'len(self.logfiles)' and not any(e.kind == 'call' and e.term == 'open' for e in p.events), mod, fn, witness=str(final), key='end-empty')
        elif some is None:
            rr.ob("seek to 'end' distinguishes a log that has files from an empty one", False, mod, stores[-1].node if stores else fn, witness=f'index: {final}; the number of files is not looked at', key='end-in-newest-file')
    rr.floor("paths of seek(('end', ..)) with files present", n, 1, mod, fn)
    imod, ifn, ipaths = fn_paths(repo, '__init__')
    first = [c for c in q.calls_in(ifn) if U(c.func) == 'self.seek' and not q.guards_of(c, stop=ifn)]
    plain = [n_ for n_ in walk_scope(ifn) if isinstance(n_, ast.Assign) and any(U(t) == 'self.read_idx' for t in n_.targets) and 'len(' in U(n_.value)]
    rr.ob("the constructor's default position is seek(('end', ..)), not an index past the list", len(first) == 1 and U(first[0].args[0]).replace('"', "'").startswith("('end',") and not plain, imod,
          first[0] if first else (plain[0] if plain else ifn), witness=(U(first[0])[:60] if first else '') + (f'; {U(plain[0])[:60]}' if plain else ''), key='default-position-end')


def _offset_from_delimiter(text):
    """for a position written as <something> + (<..>.rfind(..) [+|- c]) (either order): the constant added to the index of the delimiter; None when the text has another form"""
    try:
        e = ast.parse(text, mode='eval').body
    except SyntaxError:
        return None
    if not (isinstance(e, ast.BinOp) and isinstance(e.op, ast.Add)):
        return None
    for x in (e.right, e.left):
        if isinstance(x, ast.Call) and isinstance(x.func, ast.Attribute) and x.func.attr == 'rfind':
            return 0
        if isinstance(x, ast.BinOp) and isinstance(x.op, (ast.Add, ast.Sub)) and isinstance(x.left, ast.Call) and isinstance(x.left.func, ast.Attribute) and x.left.func.attr == 'rfind' and \
                isinstance(x.right, ast.Constant) and isinstance(x.right.value, int):
            return x.right.value if isinstance(x.op, ast.Add) else -x.right.value
    return None


@rule('C13.R16', "'end' is a record boundary: a reader that attaches at the end of a file (the constructor of a follower, seek(('end', ..)), seek((file, 'end'))) while the writer is handing a record to the kernel "
                 "must not be parked INSIDE that record - what follows would be read as a record (torn). On every path of seek() that goes to the physical end of the read file, the position finally "
                 "taken is derived from the last delimiter found, unless the log has no delimiters ('bin') or the file is empty")
def r16(rr, repo):
    mod, fn, paths = fn_paths(repo, 'seek')
    n = 0
    for p in paths:
        if p.outcome and p.outcome[0] == 'loopcut':
            continue
        seeks = [e for e in p.events if e.kind == 'call' and e.term.endswith('.seek')]
        phys = [e for e in seeks if [a.strip() for a in e.args] in (['0', '2'], ['0', 'os.SEEK_END'], ['0', 'SEEK_END'])]
        if not phys:
            continue
        n += 1
        last = seeks[-1]
        endterm = {f"{e.term}({', '.join(e.args)})" for e in phys}
        arg = last.args[0].strip() if last.args else ''
        at_physical_end = last in phys or arg in endterm
        if not at_physical_end:
            ok = "rfind(b'\\n')" in arg or 'rfind(b"\\n")' in arg or arg == '0' or arg.startswith('max(0,')       # a position computed from the last newline (or the start of the file when there is none)
            uses_rfind = 'rfind(' in arg
            found = any('rfind(' in k and v is True for k, v in p.pc)          # ... and only when that search FOUND one: rfind() answers -1 otherwise, and `start + (-1) + 1` is the start of the block looked at - inside the record
            reads_after = [e for e in p.events[p.events.index(last) + 1:] if e.kind == 'call' and e.term.endswith(('.read', '.readline', '.readlines'))]
            def found_position_shape(text):
                # <block start> + (<file>.read(<end> - <block start>).rfind(b'\n') + 1), block start = max(0, <end> - <positive constant>): the byte after the last delimiter of the block that was read
                try:
                    e = ast.parse(text, mode='eval').body
                except SyntaxError:
                    return False
                if not (isinstance(e, ast.BinOp) and isinstance(e.op, ast.Add)):
                    return False
                if isinstance(e.left, ast.BinOp) and isinstance(e.left.op, ast.Add) and isinstance(e.right, ast.Constant):          # (start + index) + 1
                    e = ast.BinOp(left=e.left.left, op=ast.Add(), right=ast.BinOp(left=e.left.right, op=ast.Add(), right=e.right))
                elif isinstance(e.left, ast.BinOp) and isinstance(e.left.op, ast.Add) and isinstance(e.left.right, ast.Constant) and not isinstance(e.right, ast.BinOp):      # (index + 1) + start
                    e = ast.BinOp(left=e.right, op=ast.Add(), right=e.left)
                if not (isinstance(e.right, ast.BinOp) and isinstance(e.right.op, ast.Add)):
                    return False
                L, R = e.left, e.right
                one = isinstance(R.right, ast.Constant) and R.right.value == 1
                rf = R.left
                if not (one and isinstance(rf, ast.Call) and isinstance(rf.func, ast.Attribute) and rf.func.attr == 'rfind' and isinstance(rf.func.value, ast.Call) and isinstance(rf.func.value.func, ast.Attribute) and rf.func.value.func.attr == 'read'):
                    return False
                rd = rf.func.value
                size_ok = len(rd.args) == 1 and isinstance(rd.args[0], ast.BinOp) and isinstance(rd.args[0].op, ast.Sub) and U(rd.args[0].right) == U(L)
                start_ok = isinstance(L, ast.Call) and U(L.func) == 'max' and len(L.args) == 2 and U(L.args[0]) == '0' and isinstance(L.args[1], ast.BinOp) and isinstance(L.args[1].op, ast.Sub) and \
                    isinstance(L.args[1].right, ast.Constant) and isinstance(L.args[1].right.value, int) and L.args[1].right.value > 0 and size_ok and U(rd.args[0].left) == U(L.args[1].left)
                return start_ok
            if reads_after:
                rr.ob("the position taken at 'end' is the one after the last delimiter", False, mod, last.node, witness=f'the file is read again after the last seek ({reads_after[0].term}): the reader is left behind what was read, not where the seek put it', key='end-is-a-record-boundary')
            elif found and not uses_rfind:
                rr.ob("the position taken at 'end' is the one after the last delimiter", False, mod, last.node, witness=f'a delimiter was found on this path, the position taken ({arg[-60:]}) is not derived from it (the search went on past it)', key='end-is-a-record-boundary')
            elif found and uses_rfind and not found_position_shape(arg) and _offset_from_delimiter(arg) not in (None, 1):
                rr.ob("the position taken at 'end' is the one after the last delimiter", False, mod, last.node, witness=f'block start + index of the delimiter + ({_offset_from_delimiter(arg)}): not the byte after the delimiter', key='end-is-a-record-boundary')
            elif found and uses_rfind and not found_position_shape(arg):
                rr.unresolved("how the position after the delimiter that was found is computed was not recognised (expected: block start + index of the delimiter + 1, the block being the last N bytes before the position searched from)", mod, last.node, witness=arg[-150:], key='end-is-a-record-boundary')
            elif ok and uses_rfind and not found:
                rr.ob("the position taken at 'end' is the one after the last delimiter", False, mod, last.node, witness=f'{arg[-80:]} is taken also when the block holds no delimiter (nothing on this path tests what rfind found)', key='end-is-a-record-boundary')
            elif ok:
                rr.ob("the position taken at 'end' is the one after the last delimiter", True, mod, last.node, witness=arg[-90:], key='end-is-a-record-boundary')
            else:
                rr.unresolved("how the position at 'end' is computed was not recognised", mod, last.node, witness=arg[-120:], key='end-is-a-record-boundary')
            continue
        modes = [(k, v) for k, v in p.pc if 'mode' in k]
        empty = any(k.startswith('truthy(') and k[7:-1] in endterm and v is False for k, v in p.pc)
        binmode = any(k.replace('"', "'") in ("eq('bin', self.mode)", "eq(self.mode, 'bin')") and v is True for k, v in modes)
        if empty or binmode:
            rr.ob("the physical end is taken only where it is a record boundary (no delimiters in 'bin' mode, an empty file)", True, mod, last.node, witness=str(modes or 'empty file'), key='end-is-a-record-boundary')
        elif modes and not all(k.replace('"', "'") in ("eq('bin', self.mode)", "eq(self.mode, 'bin')") for k, v in modes):
            rr.unresolved("the physical end is taken under a condition on the mode that this rule does not read", mod, last.node, witness=str(modes), key='end-is-a-record-boundary')
        else:
            rr.ob("the physical end is taken only where it is a record boundary (no delimiters in 'bin' mode, an empty file)", False, mod, last.node,
                  witness=f'the physical end in a delimited mode {modes or "(whatever the mode)"}: it can lie inside a record that is being written', key='end-is-a-record-boundary')
    rr.floor('paths of seek() that go to the physical end of a file', n, 2, mod, fn)


@rule('C13.R11', "a reader that has not seen any file yet accepts every file a rescan finds: the 'nothing seen' value that refresh_logfiles compares file timestamps with lies below every timestamp a file name can "
                 "encode - 0 is one of them (write(.., timestamp=0.0)), so 0 with a strict comparison skips that file for good")
def r11(rr, repo):
    mod, fn, _ = fn_paths(repo, 'refresh_logfiles')
    cmps = [c for c in ast.walk(fn) if isinstance(c, ast.Compare) and len(c.ops) == 1 and U(c.comparators[0]) == 'old_timestamp' and U(c.left).endswith('.timestamp')]
    rr.floor('comparisons of a file timestamp with the last one seen', len(cmps), 1, mod, fn)
    sent = []
    for n in walk_scope(fn):
        if isinstance(n, ast.Assign):
            tv = []
            if len(n.targets) == 1 and isinstance(n.targets[0], ast.Tuple) and isinstance(n.value, ast.Tuple) and len(n.targets[0].elts) == len(n.value.elts):
                tv = list(zip(n.targets[0].elts, n.value.elts))
            else:
                tv = [(t, n.value) for t in n.targets]
            for t, v in tv:
                if U(t) == 'old_timestamp':
                    ok_c, val = Evaluator.const_of(v)
                    if ok_c and isinstance(val, (int, float)) and not isinstance(val, bool):
                        sent.append((val, n))
    rr.floor("constant 'nothing seen yet' values of old_timestamp", len(sent), 1, mod, fn)
    for val, n in sent:
        for c in cmps:
            strict = isinstance(c.ops[0], ast.Gt)
            rr.ob("the 'nothing seen yet' value admits every file timestamp from 0 up", val < 0 or (val == 0 and not strict), mod, n, witness=f'old_timestamp = {val}, accepted iff {U(c)}', key='no-file-sentinel-below-zero')


@rule('C13.R12', "every file that pruning drops from the list is really unlinked: both loops of prune_logfiles walk the (index, file) pairs of one enumerate() and unlink the FILE of each pair - an unlink that "
                 "raises anything but FileNotFoundError is only logged there, so a loop that takes the pair for the file leaves the files on disk while the list and the byte count forget them")
def r12(rr, repo):
    mod, fn, _ = fn_paths(repo, 'prune_logfiles')
    enums = {U(n.targets[0]) for n in walk_scope(fn) if isinstance(n, ast.Assign) and isinstance(n.value, ast.Call) and U(n.value.func) == 'enumerate' and isinstance(n.targets[0], ast.Name)}
    loops = [n for n in walk_scope(fn) if isinstance(n, ast.For) and U(n.iter) in enums]
    rr.floor('loops of prune_logfiles over the enumerated file list', len(loops), 2, mod, fn)
    unl = 0
    for lp in loops:
        pair = isinstance(lp.target, ast.Tuple) and len(lp.target.elts) == 2 and all(isinstance(e, ast.Name) for e in lp.target.elts)
        rr.ob('the loop takes each element of enumerate() apart as (index, file)', pair, mod, lp, witness=U(lp.target), key=f'prune-pair|{U(lp.target)}')
        filevar = lp.target.elts[1].id if pair else (U(lp.target) if isinstance(lp.target, ast.Name) else None)
        def innermost(c):
            for a in ancestors(c):
                if isinstance(a, ast.For) and a in loops:
                    return a
            return None
        for c in [c for c in q.calls_in(lp, into_functions=False) if U(c.func) in ('os.unlink', 'os.remove') and innermost(c) is lp]:
            unl += 1
            rr.ob('what is unlinked is the path of the file of the pair', pair and U(c.args[0]) == f'{filevar}.path', mod, c, witness=U(c)[:60], key=f'prune-unlinks-file|{U(c.args[0])}')
    rr.floor('unlink calls in the pruning loops', unl, 2, mod, fn)
    nx = [c for c in q.calls_in(fn) if U(c.func) == 'next' and c.args and U(c.args[0]) in enums]
    for c in nx:
        par = parent(c)
        rr.ob('the newest file (never pruned) is taken from the same pairs: next(..)[1]', isinstance(par, ast.Subscript) and U(par.slice) == '1', mod, c, witness=U(par)[:40] if par is not None else '', key='prune-newest-from-pair')


@rule('C13.R13', "a file name is used once in the life of a log, also across a restart of the writer: new_logfile keeps a new name above every timestamp the log has used - it compares with the newest file it has "
                 "LISTED, and a restarted writer lists only what is still on disk; after the newest file was deleted externally a repeated (or smaller) timestamp gives the new file the deleted file's name (or one "
                 "that sorts before it): a follower positioned in the deleted file takes the new one for the old (it resumes at its old byte offset - a torn record - or never looks at a file that sorts "
                 "behind it). Ruling that out needs a high-water mark that survives the file (kept in the directory, or in the head file and checked by seek)")
def r13(rr, repo):
    mod, nl = repo.find(f'{RL}::RollLog.new_logfile')
    guards = [n for n in walk_scope(nl) if isinstance(n, ast.If) and any(isinstance(c, ast.Compare) and isinstance(c.ops[0], (ast.LtE, ast.Lt)) for c in ast.walk(n.test))]
    rr.floor('guards against a repeated or backwards timestamp in new_logfile', len(guards), 1, mod, nl)
    for g in guards:
        refs = {U(x) for x in ast.walk(g.test) if isinstance(x, (ast.Attribute, ast.Subscript))}
        only_listed = any('logfiles[-1]' in r for r in refs) and not any(('high' in r or 'mark' in r or 'last_ts' in r or 'newest_ever' in r) and 'logfiles' not in r for r in refs)
        persisted = any(isinstance(c, ast.Call) and U(c.func) in ('open', 'os.stat', 'os.path.getmtime', 'os.listdir') for c in ast.walk(nl))
        rr.ob('the new name is kept above every timestamp the log has used, not only above the files that are still listed', (not only_listed) or persisted, mod, g,
              witness=f'compared with: {sorted(r for r in refs if "logfiles" in r)}; nothing in new_logfile reads a mark that outlives the newest file', key='restart-forgets-deleted-newest')


@rule('C13.R14', "a position that names a file which is gone lands on the first newer file: seek() brings the timestamp it reads off the file name to the unit of the listed timestamps (the same division the scan "
                 "applies) before it compares them - compared in microseconds against seconds, no listed file is ever 'newer', the reader is put past the end of the list and every surviving record is skipped")
def r14(rr, repo):
    mod, seek = repo.find(f'{RL}::RollLog.seek')
    _, scan = repo.find(f'{RL}::RollLog.scan_logfiles')
    def scalings(fn):
        out = []
        for n in ast.walk(fn):
            if isinstance(n, ast.BinOp) and isinstance(n.op, ast.Div) and isinstance(n.right, ast.Constant) and 'group(1)' in U(n.left):
                out.append((n, n.right.value))
        return out
    sc = scalings(scan)
    rr.floor('timestamp scalings in scan_logfiles', len(sc), 1, mod, scan)
    unit = sc[0][1] if sc else None
    reads = [n for n in walk_scope(seek) if isinstance(n, ast.Assign) and 'group(1)' in U(n.value) and 'timestamp' in U(n.targets[0])]
    rr.floor('timestamps read off a file name in seek()', len(reads), 1, mod, seek)
    for n in reads:
        ss = scalings(n)
        ok = len(ss) == 1 and ss[0][1] == unit and ss[0][0] is n.value
        rr.ob('the timestamp seek() reads off the sought file name is scaled like the listed ones', ok, mod, n, witness=f'{U(n)[:80]}; the scan divides by {unit}', key='seek-timestamp-unit')
        cmps = [c for c in ast.walk(seek) if isinstance(c, ast.Compare) and U(n.targets[0]) in [U(x) for x in [c.left] + c.comparators] and any('.timestamp' in U(x) for x in [c.left] + c.comparators)]
        rr.ob('... and compared with the listed timestamps', bool(cmps), mod, n, witness=U(cmps[0])[:60] if cmps else 'no comparison', key='seek-timestamp-compared')


@rule('C13.R15', "nothing is torn while the writer is at work: a record larger than a page reaches the file piece by piece during the writer's write() call, so whatever a read of a delimited mode returns is cut back "
                 "to its last delimiter and the file position is moved back by the length of the unterminated tail - the tail is read again, complete, by a later call (binary mode has no delimiter to go by)")
def r15(rr, repo):
    mod, fn = repo.find(f'{RL}::RollLog.read')
    reads = [c for c in ast.walk(fn) if isinstance(c, ast.Call) and isinstance(c.func, ast.Attribute) and c.func.attr in ('read', 'readline') and 'read_file' in U(c.func.value)]
    rr.floor('reads of the open log file in read()', len(reads), 2, mod, fn)
    def trims(scope):
        out = []
        for n in ast.walk(scope):
            if not isinstance(n, ast.If):
                continue
            t = U(n.test).replace('"', "'")
            if "endswith(b'\\n')" not in t or 'not ' not in t:
                continue
            seeks = [c for c in ast.walk(n) if isinstance(c, ast.Call) and isinstance(c.func, ast.Attribute) and c.func.attr == 'seek' and len(c.args) == 2 and U(c.args[1]) in ('1', 'os.SEEK_CUR')]
            cuts = [a for a in ast.walk(n) if isinstance(a, ast.Assign) and isinstance(a.value, ast.Subscript) and isinstance(a.value.slice, ast.Slice) and a.value.slice.lower is None and a.value.slice.upper is not None]
            rfind = any(isinstance(c, ast.Call) and isinstance(c.func, ast.Attribute) and c.func.attr == 'rfind' and c.args and U(c.args[0]).replace('"', "'") == "b'\\n'" for c in ast.walk(n))
            back = bool(seeks) and any('len(' in U(c.args[0]) and '-' in U(c.args[0]) for c in seeks)
            out.append((n, bool(seeks) and back and bool(cuts) and rfind, "mode != 'bin'" in t or "mode == 'bin'" in t))
        return out
    for c in reads:
        scope = enclosing_function(c)
        tr = [x for x in trims(scope) if x[0].lineno > c.lineno]
        ok = bool(tr) and tr[0][1]
        rr.ob('what a read returns is cut back to the last delimiter, and the file position goes back by the length of the unterminated tail', ok, mod, c,
              witness=U(tr[0][0].test)[:100] if tr else f'no `if not data.endswith(delimiter)` after {U(c)[:40]} in {scope.name}', key=f'whole-records-only|{scope.name}')
        if tr:
            rr.ob('... for the delimited modes only (binary data is handed on as it is)', tr[0][2], mod, tr[0][0], witness=U(tr[0][0].test)[:100], key=f'whole-records-not-bin|{scope.name}')


@rule('C13.R17', "the budget the files are pruned to is the one that was configured: `total_size` (and `file_size`, which decides when a file is full) reach the pruning / roll-over comparisons as given - "
                 "raised to 'at least one file size' the budget lets an older, not yet full file stay next to the newest one although the two together exceed what was asked for (a writer that was "
                 "closed and reopened before its file was full)")
def r17(rr, repo):
    mod, cls = repo.find(f'{RL}::RollLog')
    _, init = repo.find(f'{RL}::RollLog.__init__')
    params = q.func_params(init)
    for attr in ('total_size', 'file_size'):
        st = [s for s, t in q.stores_to_attr(cls, attr)]
        rr.floor(f'stores to self.{attr}', len(st), 1, mod, cls)
        for s in st:
            v = s.value if isinstance(s, (ast.Assign, ast.AnnAssign)) else None
            if v is None:
                rr.unresolved(f'how self.{attr} is changed was not recognised', mod, s, witness=U(s)[:80], key=f'budget-as-configured|{attr}')
                continue
            text = U(v)
            same = text == attr and attr in params
            coerced = isinstance(v, ast.Call) and U(v.func) in ('int', 'float') and len(v.args) == 1 and U(v.args[0]) == attr
            combined = any(isinstance(c, ast.Call) and U(c.func) == 'max' for c in ast.walk(v)) or (isinstance(v, ast.BinOp) and isinstance(v.op, (ast.Add, ast.Mult)))       # the ways to RAISE it
            if same or coerced:
                rr.ob(f'self.{attr} is the configured value', True, mod, s, witness=U(s)[:80], key=f'budget-as-configured|{attr}')
            elif combined:
                rr.ob(f'self.{attr} is the configured value', False, mod, s, witness=f'{U(s)[:100]}: the value asked for is combined with something else', key=f'budget-as-configured|{attr}')
            else:
                rr.unresolved(f'how self.{attr} gets its value was not recognised', mod, s, witness=U(s)[:80], key=f'budget-as-configured|{attr}')
