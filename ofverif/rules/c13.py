"""C13 - rolling logs: no overwrite on roll-over, budget enforced after each write, newest never pruned, lock discipline."""

from __future__ import annotations

import ast
import re

from . import rule
from ..model import Unresolved, walk_scope, parent, enclosing_function, qualname, ancestors
from ..paths import U, Path, Evaluator
from .. import q

RL = 'openfilter/filter_runtime/rolllog.py'
STATE = ('logfiles', 'logfiles_size', 'read_idx', 'read_file', 'write_file')


def _split_top(inner: str):
    """split 'a, b' at the top-level comma"""
    depth = 0
    for i, ch in enumerate(inner):
        if ch in '([{':
            depth += 1
        elif ch in ')]}':
            depth -= 1
        elif ch == ',' and depth == 0:
            return [inner[:i], inner[i + 1:]]
    return [inner]


def cls_of(repo):
    return repo.find(f'{RL}::RollLog')


def fn_paths(repo, name, **kw):
    c = repo.__dict__.setdefault('_c13', {})
    if name not in c:
        mod, fn = repo.find(f'{RL}::RollLog.{name}')
        ev = Evaluator(repo, mod, **kw)
        ev.scope_node = fn
        c[name] = (mod, fn, ev.run(fn.body))
    return c[name]


@rule('C13.R1', 'a roll-over never overwrites: the file named by new_logfile is opened in exclusive mode, or its timestamp is forced strictly above the newest existing log file before the name is formed')
def r1(rr, repo):
    mod, wfn, wpaths = fn_paths(repo, 'write')
    rr.paths += len(wpaths)
    opens = {}
    for p in wpaths:
        for e in p.events:
            if e.kind == 'call' and e.term == 'open' and e.args and 'new_logfile(' in e.args[0]:
                mode = e.args[1] if len(e.args) > 1 else dict(e.kwargs).get('mode', "'r'")
                opens[id(e.node)] = (e, mode)
    rr.floor('open() sites of a newly named log file', len(opens), 1, mod, wfn)
    exclusive = all('x' in m.strip('\'"') for _, m in opens.values()) and bool(opens)
    nmod, nfn, npaths = fn_paths(repo, 'new_logfile')
    rr.paths += len(npaths)
    forced = True
    detail = []
    n = 0
    coarse = []
    # how does the timestamp enter the file name?  fnm_from_dats formats int(ts * 1_000_000): names have microsecond resolution
    name_res = None
    for st in nmod.tree.body:
        if isinstance(st, ast.Assign) and isinstance(st.value, ast.Lambda) and any(U(t) == 'fnm_from_dats' for t in st.targets):
            for c in ast.walk(st.value):
                if isinstance(c, ast.Call) and U(c.func) == 'int' and c.args and isinstance(c.args[0], ast.BinOp) and isinstance(c.args[0].op, ast.Mult):
                    name_res = ('int(', f'* {U(c.args[0].right)}')
    param = q.func_params(nfn)[1]
    for p in npaths:
        o = p.outcome
        if o is None or o[0] != 'return' or o[1] is None or not isinstance(o[1], ast.Call) or not o[1].args:
            if o is not None and o[0] == 'raise':
                continue
            forced = False
            detail.append(f'{p.pc_text()} => {p.outcome_text()[:80]}')
            continue
        n += 1
        T = o[1].args[0]
        names = [c for c in ast.walk(o[1]) if isinstance(c, ast.Call) and U(c.func) == 'fnm_from_dats']
        same = bool(names) and len(names[0].args) > 1 and U(names[0].args[1]) == U(T)
        empty = p.facts.get('truthy(self.logfiles)') is False
        above = None
        for k, v in p.pc:
            if k.startswith('ord(') and 'self.logfiles[-1].timestamp' in k:
                inner = k[4:-1]
                if name_res and not all(part.strip().startswith(name_res[0]) and name_res[1] in part for part in _split_top(inner)):
                    coarse.append(k)   # compared at another resolution than the one the file name is built from
                first_is_last = inner.startswith('int(self.logfiles[-1].timestamp') or inner.startswith('self.logfiles[-1].timestamp')
                rel_new_vs_last = ({'<': '>', '>': '<', '=': '='}[v]) if first_is_last else v
                above = rel_new_vs_last == '>'
        bumped = 'self.logfiles[-1].timestamp' in U(T) and any(isinstance(b, ast.BinOp) and isinstance(b.op, ast.Add) and any(isinstance(c, ast.Constant) and isinstance(c.value, (int, float)) and c.value > 0 for c in (b.left, b.right)) for b in ast.walk(T))
        ok = same and (empty or above is True or bumped)
        if not ok:
            forced = False
            detail.append(f'{p.pc_text() or "unconditional"} => timestamp {U(T)[:80]}')
    if coarse and not exclusive:
        rr.violated('the "is the new timestamp above the newest file\'s" test compares raw timestamps although file names are built from truncated microseconds: two timestamps inside one microsecond pass the test and still produce the same name (the existing file is truncated)',
                    nmod, nfn, witness=coarse[0][:200], key='name-resolution')
    if exclusive:
        rr.holds('new log files are opened in exclusive mode', mod, next(iter(opens.values()))[0].node, key='exclusive')
    elif forced and n:
        rr.holds('new_logfile forces the timestamp that names the file strictly above the newest existing file on every path', nmod, nfn, key='forced-above')
    else:
        e, mode = next(iter(opens.values()))
        rr.violated(f'a new log file is opened with mode {mode} (truncating) under a name that can equal an existing file\'s: equal or backwards timestamps overwrite it', mod, e.node,
                    witness='; '.join(detail)[:400], key='overwrite')
    rr.floor('returning paths of new_logfile', n, 1, nmod, nfn)


@rule('C13.R2', 'the budget is enforced after every write (prune when the running total exceeds total_size), pruning never unlinks the newest file and re-bases the reader when it deleted something')
def r2(rr, repo):
    mod, wfn, wpaths = fn_paths(repo, 'write')
    n = 0
    for p in wpaths:
        st = [e for e in p.events if e.kind == 'store' and e.term == 'self.logfiles_size']
        if not st:
            continue
        over = None
        for k, v in p.pc:
            if k.startswith('ord(') and 'self.total_size' in k and 'self.logfiles_size' in k:
                inner = k[4:-1]
                total_first = inner.startswith('self.total_size')
                rel_size_vs_total = ({'<': '>', '>': '<', '=': '='}[v]) if total_first else v
                over = rel_size_vs_total == '>'
        pr = [e for e in p.events if e.kind == 'call' and e.term == 'self.prune_logfiles']
        if over is None:
            rr.violated('a write updates the running total without comparing it with total_size', mod, st[0].node, witness=p.pc_text()[-200:], key='no-budget-test')
            continue
        n += 1
        if over:
            rr.ob('over budget after a write => prune_logfiles()', bool(pr) and p.events.index(pr[0]) > p.events.index(st[0]), mod, st[0].node, witness=p.pc_text()[-200:], key='prune-called')
    rr.floor('write paths that update the running total', n, 2, mod, wfn)
    pmod, pfn = repo.find(f'{RL}::RollLog.prune_logfiles')
    unlinks = [c for c in q.calls_in(pfn) if U(c.func) in ('os.unlink', 'os.remove')]
    rr.floor('unlink sites in prune_logfiles', len(unlinks), 1, pmod, pfn)
    # the iterator over reversed(logfiles) is advanced once (the newest file) before any unlink loop, when there are files
    nxt = [c for c in q.name_calls(pfn, 'next')]
    itname = None
    for st in pfn.body:
        if isinstance(st, ast.Assign) and isinstance(st.value, ast.Call) and 'reversed(' in U(st.value):
            itname = U(st.targets[0])
    okn = bool(nxt) and itname is not None and all(U(c.args[0]) == itname for c in nxt) and min(c.lineno for c in nxt) < min(u.lineno for u in unlinks)
    rr.ob('the newest file is taken off the candidate iterator (next(...)) before any deletion', okn, pmod, pfn, key='skip-newest')
    for u in unlinks:
        loops = [a for a in ancestors(u) if isinstance(a, ast.For)]
        ok = bool(loops) and all(U(l.iter) == itname for l in loops)
        rr.ob('files are unlinked only while walking the remaining (older) candidates', ok, pmod, u, key=f'unlink-in-iter|{U(u.args[0])}')
    ev = Evaluator(repo, pmod, unroll_for=1)
    pp = ev.run(pfn.body)
    rr.paths += len(pp)
    k = 0
    for p in pp:
        ul = [e for e in p.events if e.kind == 'call' and e.term in ('os.unlink', 'os.remove')]
        if ul:
            nx = [e for e in p.events if e.kind == 'call' and e.term == 'next']
            if p.facts.get('truthy(self.logfiles)') is False:
                continue   # an empty list has nothing to iterate: infeasible combination
            rr.ob('on every deleting path the newest file was first taken off the candidate iterator', bool(nx) and p.events.index(nx[0]) < p.events.index(ul[0]), pmod, ul[0].node, witness=p.pc_text()[-200:], key='skip-newest-path')
            if any(kk.startswith('eq(-1, __elem__(') and v is True for kk, v in p.facts.items()):
                continue   # the enumerate index of a deleted (older) file is >= 1: this combination is infeasible
            k += 1
            rb = [e for e in p.events if e.kind == 'store' and e.term == 'self.read_idx']
            dl = [e for e in p.events if e.kind == 'del' and 'logfiles[' in e.term]
            rr.ob('after deleting files the list is trimmed and the reader index re-based', bool(rb) and bool(dl), pmod, ul[0].node, witness=p.pc_text()[-200:], key='rebase')
    rr.floor('pruning paths that delete', k, 1, pmod, pfn)
    # re-base decision table: the reader keeps its open file and moves its index down by the number of deleted files
    # when its file survived (index - deleted >= 0); only when its file was deleted (< 0) is it reset and closed
    rows = set()
    for p in pp:
        rel = None
        term = None
        for kk, v in p.pc:
            if kk.startswith('ord(0, self.read_idx - ') or (kk.startswith('ord(self.read_idx - ') and kk.endswith(', 0)')):
                zero_first = kk.startswith('ord(0, ')
                rel = ({'<': '>', '>': '<', '=': '='}[v]) if zero_first else v
                term = kk[7:-1] if zero_first else kk[4:-4]
        if rel is None:
            continue
        rows.add(rel)
        st = [e for e in p.events if e.kind == 'store' and e.term == 'self.read_idx']
        closed = [e for e in p.events if e.kind == 'call' and e.term.endswith('.close')] + [e for e in p.events if e.kind == 'store' and e.term == 'self.read_file']
        if rel in ('=', '>'):
            ok = bool(st) and st[-1].args[0] == term and not closed
            rr.ob("the reader's file survived the pruning (index - deleted >= 0): the index is re-based and the open file and offset are kept", ok, pmod, st[-1].node if st else pfn,
                  witness=f'read_idx - deleted {rel} 0: {[repr(e)[:60] for e in st + closed]}', key=f'rebase-survivor|{rel}')
        else:
            ok = bool(st) and st[-1].args[0] == '0'
            rr.ob("the reader's file was deleted (index - deleted < 0): it restarts at the oldest surviving file", ok, pmod, st[-1].node if st else pfn, witness=str([repr(e)[:60] for e in st]), key='rebase-deleted')
    rr.floor('orderings of (reader index - deleted files) vs 0 distinguished', len(rows), 3, pmod, pfn)


@rule('C13.R3', 'lock discipline: every store to logfiles / logfiles_size / read_idx / read_file / write_file happens under self.lock, in __init__, or in a private helper all of whose call sites are so protected')
def r3(rr, repo):
    mod, cls = cls_of(repo)
    methods = {f.name: f for f in cls.body if isinstance(f, ast.FunctionDef)}

    def protected_fn(fn, seen=()):
        """all call sites self.<fn>() are under the lock / in __init__ / in a protected helper"""
        if fn.name == '__init__':
            return True
        sites = [c for c in q.attr_calls(cls, fn.name) if U(c.func) == f'self.{fn.name}']
        if not sites:
            return False
        for c in sites:
            host = enclosing_function(c)
            if q.within_with(c, 'self.lock'):
                continue
            if host is not None and host.name not in seen and protected_fn(host, seen + (fn.name,)):
                continue
            return False
        return True

    n = 0
    for attr in STATE:
        for st, tgt in q.stores_to_attr(cls, attr):
            if U(tgt.value) != 'self':
                continue
            n += 1
            fn = enclosing_function(st)
            ok = fn.name == '__init__' or q.within_with(st, 'self.lock') or protected_fn(fn)
            rr.ob(f'store to self.{attr} is protected by the lock', ok, mod, st, key=f'lock|{attr}|{qualname(st)}|{q.within_with(st, "self.lock")}')
    rr.floor('stores to the shared reader/writer state', n, 15, mod, cls)
    for c in q.attr_calls(cls, 'append'):
        if U(c.func) == 'self.logfiles.append':
            fn = enclosing_function(c)
            rr.ob('logfiles.append is protected by the lock', q.within_with(c, 'self.lock') or protected_fn(fn), mod, c, key='lock|append')


@rule('C13.R4', 'reader advance discipline in read(): the file index moves forward by exactly one at a time, an exhausted or vanished file is closed before the next one is opened, and the file opened is the one the index names')
def r4(rr, repo):
    mod, fn, paths = fn_paths(repo, 'read')
    rr.paths += len(paths)
    n = m = 0
    for p in paths:
        for e in p.events:
            if e.kind == 'store' and e.term == 'self.read_idx':
                n += 1
                rr.ob('the reader index advances by exactly one', e.args[0] == 'self.read_idx + 1', mod, e.node, witness=e.args[0], key=f'advance|{e.args[0][:40]}')
            if e.kind == 'call' and e.term == 'open':
                m += 1
                rr.ob('the file opened for reading is logfiles[read_idx], read-only', e.args[0] == 'self.logfiles[self.read_idx].path' and e.args[1].strip('\'"') == 'rb', mod, e.node, witness=str(e.args), key='open-current')
        adv = [e for e in p.events if e.kind == 'store' and e.term == 'self.read_idx']
        empty = [v for kk, v in p.pc if kk.startswith('truthy(') and ('.readline()' in kk or '.read()' in kk)]
        if adv and empty and empty[-1] is False:
            closes = [e for e in p.events if e.kind == 'call' and e.term.endswith('.close')]
            nulls = [e for e in p.events if e.kind == 'store' and e.term == 'self.read_file' and e.args[0] == 'None']
            rr.ob('moving past an exhausted file closes it and forgets the handle', bool(closes) and bool(nulls), mod, adv[0].node, witness=p.pc_text()[-160:], key='close-exhausted')
    rr.floor('index advances in read()', n, 2, mod, fn)
    rr.floor('opens in read()', m, 1, mod, fn)


@rule('C13.R5', 'refresh re-anchors the reader by identity: the open file is kept exactly when the same path is still listed; otherwise the reader moves to the first file newer than where it was (or to the end) and the stale handle is closed')
def r5(rr, repo):
    mod, fn, paths = fn_paths(repo, 'refresh_logfiles', unroll_for=1)
    rr.paths += len(paths)
    rows = set()
    for p in paths:
        same = [v for kk, v in p.pc if kk.startswith('eq(') and kk.endswith('.path)') and '__elem__' in kk]
        newer = None
        for kk, v in p.pc:
            if kk.startswith('ord(') and '.timestamp' in kk and '__elem__' in kk:
                inner = kk[4:-1]
                elem_first = inner.startswith('__elem__(')
                newer = (v if elem_first else {'<': '>', '>': '<', '=': '='}[v]) == '>'
        st = [e for e in p.events if e.kind == 'store' and e.term == 'self.read_idx']
        closes = [e for e in p.events if e.kind == 'call' and e.term.endswith('.close')]
        had_file = p.facts.get('isnone(self.read_file)') is False
        it = [e for e in p.events if e.kind == 'for']
        zero = bool(it) and it[0].args[0] == 'zero'
        if not st:
            rr.violated('refresh ends without re-anchoring the reader index', mod, fn, witness=p.pc_text()[-200:], key='no-store')
            continue
        val = st[-1].args[0]
        if same and same[0] is True:
            rows.add('same')
            rr.ob('same path still listed: the reader stays on it (index of that entry) and the open handle is kept', val.endswith('[0]') and '__elem__' in val and not closes, mod, st[-1].node, witness=f'{val[:60]} closes={len(closes)}', key='same-path')
        elif not zero and newer is True:
            rows.add('newer')
            rr.ob('file gone, a newer one exists: move to the first newer file and drop the stale handle', val.endswith('[0]') and '__elem__' in val and (bool(closes) == had_file), mod, st[-1].node, witness=f'{val[:60]} closes={len(closes)} had_file={had_file}', key='first-newer')
        elif zero or newer is False:
            rows.add('end')
            rr.ob('nothing newer: the reader is placed at the end and the stale handle dropped', val == 'len(self.logfiles)' and (bool(closes) == had_file), mod, st[-1].node, witness=f'{val[:60]} closes={len(closes)} had_file={had_file}', key='to-end')
    rr.floor('rows of the refresh decision table (same path / first newer / end)', len(rows), 3, mod, fn)
    # entry table: WHAT is looked for. A reader inside the list looks for the file it is on; a reader past the end (or with
    # no files) has no current file, so no listed path may match - it can only move on to a strictly newer file.
    cmp = [n for n in ast.walk(fn) if isinstance(n, ast.Compare) and len(n.ops) == 1 and isinstance(n.ops[0], ast.Eq) and
           any(isinstance(x, ast.Attribute) and x.attr == 'path' for x in (n.left, n.comparators[0])) and
           any(isinstance(x, ast.Name) for x in (n.left, n.comparators[0]))]
    if len(cmp) != 1:
        raise Unresolved(f'{mod.rel}: refresh_logfiles: cannot identify the path identity test ({len(cmp)} candidates)')
    ident = [x for x in (cmp[0].left, cmp[0].comparators[0]) if isinstance(x, ast.Name)][0].id
    inside = past = 0
    for p in paths:
        entry = [v for kk, v in p.pc if kk in ('ord(len(self.logfiles), self.read_idx)', 'ord(self.read_idx, len(self.logfiles))')]
        first = [kk for kk, v in p.pc if kk in ('ord(len(self.logfiles), self.read_idx)', 'ord(self.read_idx, len(self.logfiles))')]
        b = [e for e in p.events if e.kind == 'bind' and e.term == ident]
        if not entry or not b:
            rr.unresolved(f'refresh_logfiles: entry test or the binding of {ident} not found on a path', mod, fn, witness=p.pc_text()[:160], key='entry-shape')
            continue
        within = (entry[0] == '>') if first[0].startswith('ord(len(') else (entry[0] == '<')
        val = b[0].args[0]
        if within:
            inside += 1
            rr.ob('reader inside the list: the identity looked for is the path of the entry at the reader index', 'self.read_idx' in val and val.startswith('self.logfiles['), mod, b[0].node, witness=val, key='ident-current')
        else:
            past += 1
            rr.ob('reader past the end / empty list: nothing is open, so the identity looked for matches no listed path (None / 0) - an already delivered file is never re-opened from its start',
                  val in ('None', '0', 'False', "''"), mod, b[0].node, witness=val, key='ident-none')
    rr.floor('refresh paths entered inside the list / past the end', min(inside, past), 1, mod, fn)
