"""C17 - resize bounds, flips, rotations: bounds by construction, no zero dimension, dispatch agreement, operation table."""

from __future__ import annotations

import ast
import re

from . import rule
from ..model import Unresolved, walk_scope, parent, enclosing_function, qualname, ancestors
from ..paths import U, Path, Evaluator
from .. import q
from .zmq import stmt_list_containing

UT = 'openfilter/filter_runtime/filters/util.py'
VI = 'openfilter/filter_runtime/filters/video_in.py'


def util_size_paths(repo):
    c = repo.__dict__.setdefault('_c17', {})
    if 'util' not in c:
        mod, fn = repo.find(f'{UT}::Util.execute_xform_size')
        q.expect_locals(mod, fn, ['xform', 'frame', 'w', 'h', 'width', 'height'])
        ev = Evaluator(repo, mod)
        c['util'] = (mod, fn, ev.run(fn.body))
    return c['util']


def video_region(repo):
    mod, fn = repo.find(f'{VI}::VideoReader.thread_reader')
    q.expect_locals(mod, fn, ['image', 'shape', 'width', 'height', 'aspect', 'maxsize', 'newsize', 'w', 'h'])
    cands = [n for n in walk_scope(fn) if isinstance(n, ast.If) and any(isinstance(c, ast.Call) and U(c.func) == 'cv2.resize' for c in ast.walk(n))]
    cands = [n for n in cands if not any(q.inside(n, m) for m in cands)]
    if len(cands) != 1:
        raise Unresolved(f'{VI}: thread_reader: expected one outermost `if` that hosts the cv2.resize calls, found {len(cands)}')
    return mod, fn, cands[0]


def video_paths(repo):
    c = repo.__dict__.setdefault('_c17', {})
    if 'video' not in c:
        mod, fn, region = video_region(repo)
        ev = Evaluator(repo, mod)
        c['video'] = (mod, fn, region, ev.run([region]))
    return c['video']


def resize_calls(p: Path):
    return [e for e in p.events if e.kind == 'call' and e.term == 'cv2.resize' and e.value is not None and len(e.value.args) >= 2]


def bounded(term: ast.AST, bound: str, fn: str) -> bool:
    """term is fn(..., bound, ...) possibly wrapped in max(<positive literal>, .)"""
    if isinstance(term, ast.Call) and isinstance(term.func, ast.Name):
        if term.func.id == fn and any(U(a) == bound for a in term.args) and not term.keywords:
            return True
        if term.func.id == 'max' and fn == 'min' and len(term.args) == 2:
            lits = [a for a in term.args if isinstance(a, ast.Constant) and isinstance(a.value, int) and a.value >= 1]
            rest = [a for a in term.args if a not in lits]
            if len(lits) == 1 and len(rest) == 1:
                return bounded(rest[0], bound, fn)
    return False


def computed(term: ast.AST) -> bool:
    """does the term contain an int(<arithmetic>) - a dimension computed by scaling?"""
    for n in ast.walk(term):
        if isinstance(n, ast.Call) and isinstance(n.func, ast.Name) and n.func.id == 'int' and n.args and any(isinstance(x, ast.BinOp) and isinstance(x.op, (ast.Mult, ast.Div)) for x in ast.walk(n.args[0])):
            return True
    return False


def clamped(term: ast.AST) -> bool:
    """every computed int(...) inside term sits under a max(<positive literal>, .)"""
    def walk(n, under):
        if isinstance(n, ast.Call) and isinstance(n.func, ast.Name) and n.func.id == 'max' and any(isinstance(a, ast.Constant) and isinstance(a.value, (int, float)) and a.value >= 1 for a in n.args):
            under = True
        if isinstance(n, ast.Call) and isinstance(n.func, ast.Name) and n.func.id == 'int' and computed(n) and not under:
            return False
        return all(walk(c, under) for c in ast.iter_child_nodes(n))
    return walk(term, False)


def action_of(p: Path):
    for a in ('resize', 'maxsize', 'minsize'):
        if p.facts.get(f"eq('{a}', xform.action)") is True:
            return a
    if p.facts.get("eq('resize', xform.action)") is False and p.facts.get("eq('maxsize', xform.action)") is False:
        return 'minsize'
    return None


@rule('C17.R1', 'bounds by construction: the size handed to cv2.resize is (min(., width), min(., height)) for maxsize, max for minsize, exactly the configured pair for resize')
def r1(rr, repo):
    mod, fn, paths = util_size_paths(repo)
    rr.paths += len(paths)
    seen = set()
    for p in paths:
        act = action_of(p)
        for e in resize_calls(p):
            size = e.value.args[1]
            if not (isinstance(size, ast.Tuple) and len(size.elts) == 2):
                rr.unresolved('cv2.resize size is not a 2-tuple', mod, e.node, witness=U(size)[:100], key='size-shape')
                continue
            W, H = size.elts
            seen.add(act)
            if act == 'maxsize':
                rr.ob('Util maxsize: both dimensions are capped by the configured bounds (min(., width), min(., height))', bounded(W, 'xform.width', 'min') and bounded(H, 'xform.height', 'min'), mod, e.node,
                      witness=U(size)[:200], key='util-maxsize')
            elif act == 'minsize':
                rr.ob('Util minsize: both dimensions are floored by the configured bounds (max(., width), max(., height))', bounded(W, 'xform.width', 'max') and bounded(H, 'xform.height', 'max'), mod, e.node,
                      witness=U(size)[:200], key='util-minsize')
            elif act == 'resize':
                rr.ob('Util resize: exactly the configured (width, height)', U(W) == 'xform.width' and U(H) == 'xform.height', mod, e.node, witness=U(size)[:200], key='util-resize')
            else:
                rr.unresolved('cv2.resize reached for an unclassified action', mod, e.node, witness=p.pc_text()[:200], key='util-action')
            src = e.value.args[0]
            rr.ob('the image resized is the frame\'s own', U(src) == 'frame.image', mod, e.node, witness=U(src), key='util-src')
    rr.floor('size actions reaching cv2.resize in Util', len(seen - {None}), 3, mod, fn)
    # the resize may be skipped only when the target equals the current size, compared in matching (width, height) order
    n_skip = 0
    for p in paths:
        if resize_calls(p) or p.outcome is None or p.outcome[0] != 'return':
            continue
        w_t, h_t = p.env.get('w'), p.env.get('h')
        if w_t is None or h_t is None:
            continue
        W, H = U(w_t), U(h_t)
        n_skip += 1
        eqs = {kk: v for kk, v in p.facts.items() if kk.startswith('eq(')}
        def eq_true(a, b):
            x, y = sorted((a, b))
            return eqs.get(f'eq({x}, {y})') is True or a == b
        ok = None
        if eq_true(W, 'frame.width') and eq_true(H, 'frame.height'):
            ok = True
        else:
            for kk, v in eqs.items():
                if v is not True:
                    continue
                inner = kk[3:-1]
                for shp in ('frame.shape[:2]', 'frame.image.shape[:2]'):
                    if shp in inner:
                        other = inner.replace(shp, '').strip(', ')
                        if other == f'({H}, {W})':
                            ok = True          # numpy shape is (rows, cols) = (height, width)
                        elif other == f'({W}, {H})':
                            ok = False         # (width, height) compared with (height, width)
                for pair, good in ((f'(frame.width, frame.height)', f'({W}, {H})'), (f'(frame.height, frame.width)', f'({H}, {W})')):
                    if pair in inner:
                        other = inner.replace(pair, '').strip(', ')
                        ok = (other == good) if ok is None else ok
        if ok is None:
            rr.unresolved('the condition under which the resize is skipped is not a recognised size comparison', mod, fn, witness=p.pc_text()[-200:], key='skip-guard')
        else:
            rr.ob('the resize is skipped only when the target (w, h) equals the current (width, height), compared in matching order', ok, mod, fn, witness=p.pc_text()[-200:], key=f'skip-guard|{ok}')
    rr.floor('paths of execute_xform_size that skip the resize', n_skip, 1, mod, fn)
    vmod, vfn, region, vpaths = video_paths(repo)
    rr.paths += len(vpaths)
    # the size a frame is resized to is worked out from THAT frame: a value carried over from an earlier iteration of the frame loop (a size cached
    # from the first frame) bounds only frames of the same dimensions - a stream that changes resolution gets frames over the bound or enlarged
    carried = False
    for c in [c for c in ast.walk(vfn) if isinstance(c, ast.Call) and U(c.func) == 'cv2.resize' and len(c.args) >= 2]:
        loops = [a for a in ancestors(c) if isinstance(a, (ast.While, ast.For))]
        loop = loops[0] if loops else None
        for nm in {x.id for x in ast.walk(c.args[1]) if isinstance(x, ast.Name)}:
            defs = [d for d in ast.walk(vfn) if (isinstance(d, ast.Assign) and any(isinstance(t, ast.Name) and t.id == nm for t in d.targets)) or
                    (isinstance(d, (ast.NamedExpr, ast.AugAssign)) and isinstance(d.target, ast.Name) and d.target.id == nm)]
            outside = [d for d in defs if loop is not None and not any(a is loop for a in ancestors(d))]
            if outside and [d for d in defs if d not in outside]:
                carried = True
                rr.violated(f'video reader: the size handed to cv2.resize ({nm}) is also assigned outside the frame loop, so a value computed for an earlier frame can size a later one '
                            f'(the bound is only checked against the frame it was computed from)', vmod, c, witness=f'{nm} assigned at lines {sorted(d.lineno for d in defs)}', key=f'size-loop-carried|{nm}')
    if carried:
        return
    n = 0
    for p in vpaths:
        mx = p.facts.get('truthy(maxsize)')
        for e in resize_calls(p):
            size = e.value.args[1]
            if not (isinstance(size, ast.Tuple) and len(size.elts) == 2):
                rr.unresolved('video reader: cv2.resize size is not a 2-tuple', vmod, e.node, witness=U(size)[:100], key='vsize-shape')
                continue
            W, H = size.elts
            n += 1
            if mx is True:
                rr.ob('video reader maxsize: both dimensions are capped (min(width, .), min(height, .))', bounded(W, 'width', 'min') and bounded(H, 'height', 'min'), vmod, e.node, witness=U(size)[:200], key='video-maxsize')
            elif mx is False:
                okw = U(W) == 'width' or (computed(W) and 'height' in U(W) or computed(W) and 'width' in U(W))
                okh = U(H) == 'height' or (computed(H))
                asp = p.facts.get('truthy(aspect)')
                if asp is False:
                    rr.ob('video reader resize without aspect: exactly (width, height)', U(W) == 'width' and U(H) == 'height', vmod, e.node, witness=U(size)[:200], key='video-resize-exact')
                else:
                    pass   # the aspect-keeping resize is judged by C17.R8 (result inside the requested box); the shape test that stood here also accepted the forms that leave the box (D17)
    rr.floor('cv2.resize calls reached in the video reader', n, 4, vmod, vfn)
    # sibling agreement on which side is scaled (maxsize): compare the decision structure of the two implementations
    def kind(term, hb, wb):
        ints = [n for n in ast.walk(term) if isinstance(n, ast.Call) and isinstance(n.func, ast.Name) and n.func.id == 'int' and computed(n)]
        if not ints:
            return 'orig'
        t = U(ints[0])
        if 'min(' in t or 'max(' in t:
            return 'by-smaller-ratio'
        names = {U(x) for x in ast.walk(ints[0]) if isinstance(x, (ast.Name, ast.Attribute))}
        if wb in names:
            return 'by-width-ratio'
        if hb in names:
            return 'by-height-ratio'
        return 'other'

    def table(paths, h0, w0, hb, wb, sel):
        t = {}
        for p in paths:
            if not sel(p):
                continue
            for e in resize_calls(p):
                size = e.value.args[1]
                if not isinstance(size, ast.Tuple):
                    continue
                hover = q.order(p, h0, hb)
                wover = q.order(p, w0, wb)
                t.setdefault((hover == '>', wover == '>'), set()).add((kind(size.elts[0], hb, wb), kind(size.elts[1], hb, wb)))
        return t
    tu = table(paths, 'frame.height', 'frame.width', 'xform.height', 'xform.width', lambda p: action_of(p) == 'maxsize' and p.facts.get("truthy(xform.get('aspect', True))") is True)
    tv = table(vpaths, 'image.shape[0]', 'image.shape[1]', 'height', 'width', lambda p: p.facts.get('truthy(maxsize)') is True and p.facts.get('truthy(aspect)') is True)
    canon = lambda t: t
    common = set(tu) & set(tv)
    rr.floor('over/under cases evaluated in both maxsize implementations', len(common), 3, mod, fn)
    for k in sorted(common, key=str):
        a, b = canon(tu)[k], canon(tv)[k]
        rr.ob(f'Util and the video reader scale the same side for the case (height over bound: {k[0]}, width over bound: {k[1]})', a == b, mod, fn, witness=f'util={sorted(a)} video={sorted(b)}', key=f'sibling|{k}')


@rule('C17.R2', 'no dimension can reach cv2 as 0: on the shrinking paths every computed dimension that flows into a cv2.resize size is clamped from below by a positive constant')
def r2(rr, repo):
    mod, fn, paths = util_size_paths(repo)
    n = 0
    for p in paths:
        act = action_of(p)
        if act != 'maxsize':
            continue   # resize uses the configured pair; minsize scales by a factor > 1 (dimension >= 1 stays >= 1)
        for e in resize_calls(p):
            size = e.value.args[1]
            if isinstance(size, ast.Tuple):
                for nm, d in zip(('width', 'height'), size.elts):
                    if computed(d):
                        n += 1
                        rr.ob(f'Util maxsize: the computed {nm} is clamped to >= 1 before cv2.resize', clamped(d), mod, e.node, witness=U(d)[:160], key=f'util-zero|{nm}')
    rr.floor('computed dimensions on Util maxsize paths', n, 2, mod, fn)
    vmod, vfn, region, vpaths = video_paths(repo)
    k = 0
    for p in vpaths:
        for e in resize_calls(p):
            size = e.value.args[1]
            if isinstance(size, ast.Tuple):
                for nm, d in zip(('width', 'height'), size.elts):
                    if computed(d):
                        k += 1
                        kind = 'maxsize' if p.facts.get('truthy(maxsize)') is True else 'resize'
                        rr.ob(f'video reader {kind}: the computed {nm} is clamped to >= 1 before cv2.resize', clamped(d), vmod, e.node, witness=U(d)[:160], key=f'video-zero|{kind}|{nm}|{U(d)[:50]}')
    rr.floor('computed dimensions in the video reader', k, 4, vmod, vfn)


def action_literals(fn, var_names=('action',)):
    out = set()
    for n in ast.walk(fn):
        if isinstance(n, ast.Compare) and len(n.ops) == 1 and isinstance(n.left, ast.Name) and n.left.id in var_names:
            c = n.comparators[0]
            if isinstance(n.ops[0], ast.Eq) and q.const_str(c):
                out.add(c.value)
            elif isinstance(n.ops[0], ast.In) and isinstance(c, (ast.Tuple, ast.List, ast.Set)):
                out.update(e.value for e in c.elts if q.const_str(e))
    return out


@rule('C17.R3', 'dispatch agreement: the set of actions normalize_config accepts equals the set execute_xforms (and its helpers) executes; parameterless actions reject parameters')
def r3(rr, repo):
    mod, norm = repo.find(f'{UT}::Util.normalize_config')
    _, exe = repo.find(f'{UT}::Util.execute_xforms')
    q.expect_locals(mod, norm, ['action', 'args'])
    q.expect_locals(mod, exe, ['action', 'frame', 'xform'])
    acc = action_literals(norm)
    done = action_literals(exe)
    rr.floor('actions accepted by normalize_config', len(acc), 13, mod, norm)
    rr.ob('accepted actions == executed actions', acc == done, mod, exe, witness=f'accepted-only={sorted(acc - done)} executed-only={sorted(done - acc)}', key='dispatch-sets')
    # unknown action raises on both sides
    for fn, label in ((norm, 'normalize_config'), (exe, 'execute_xforms')):
        raises = [r for r in ast.walk(fn) if isinstance(r, ast.Raise) and r.exc is not None and 'xform' in U(r.exc) and ('invalid' in U(r.exc) or 'unknown' in U(r.exc))]
        rr.ob(f'{label}: an unknown action raises', bool(raises), mod, fn, key=f'unknown-raises|{label}')
    # parameterless actions
    paramless = None
    for n in ast.walk(norm):
        if isinstance(n, ast.If) and isinstance(n.test, ast.Compare) and isinstance(n.test.ops[0], ast.In) and isinstance(n.test.comparators[0], ast.Tuple) \
                and any(isinstance(b, ast.If) and isinstance(b.test, ast.Name) and any(isinstance(r, ast.Raise) for r in b.body) for b in n.body):
            paramless = {e.value for e in n.test.comparators[0].elts if q.const_str(e)}
    sized = {'resize', 'maxsize', 'minsize', 'box'}
    rr.ob('every action without parameters is in the group that rejects parameters', paramless is not None and paramless == acc - sized, mod, norm, witness=str(sorted(paramless or ())), key='paramless')
    # size actions dispatch to the size helper which distinguishes all three
    _, szf = repo.find(f'{UT}::Util.execute_xform_size')
    lits = set()
    for n in ast.walk(szf):
        if isinstance(n, ast.Compare) and isinstance(n.ops[0], ast.Eq) and q.const_str(n.comparators[0]) and 'action' in U(n.left):
            lits.add(n.comparators[0].value)
    rr.ob('the size helper distinguishes resize / maxsize (minsize is the remaining case)', {'resize', 'maxsize'} <= lits, mod, szf, witness=str(sorted(lits)), key='size-helper')


@rule('C17.R4', 'operation table: flipx/flipy/flipboth -> cv2.flip codes 1/0/-1, rotcw/rotccw -> the two 90 degree constants, fmt* -> the accessor of that format; box colour reversed iff BGR, averaged iff GRAY')
def r4(rr, repo):
    mod, exe = repo.find(f'{UT}::Util.execute_xforms')
    q.expect_locals(mod, exe, ['action', 'frame', 'xform'])
    q.expect_locals(mod, repo.find(f'{UT}::Util.execute_xform_box')[1], ['xform', 'frame', 'c', 'image'])
    loops = [n for n in walk_scope(exe) if isinstance(n, ast.For)]
    if len(loops) != 1:
        raise Unresolved(f'{UT}: execute_xforms: expected one loop over the xforms')
    ev = Evaluator(repo, mod)
    start = Path()
    paths = ev.run(loops[0].body, start)
    rr.paths += len(paths)
    FLIP_CODE = {'flipx': 1, 'flipy': 0, 'flipboth': -1}
    FLIP_AXES = {'flipx': {1}, 'flipy': {0}, 'flipboth': {0, 1}}
    ROT = {'rotcw': ('ROTATE_90_CLOCKWISE', -1), 'rotccw': ('ROTATE_90_COUNTERCLOCKWISE', 1)}
    FMT = {'fmtrgb': 'rgb', 'fmtbgr': 'bgr', 'fmtgray': 'gray'}

    def const_int(n):
        if isinstance(n, ast.Constant) and isinstance(n.value, int):
            return n.value
        if isinstance(n, ast.UnaryOp) and isinstance(n.op, ast.USub) and isinstance(n.operand, ast.Constant) and isinstance(n.operand.value, int):
            return -n.operand.value
        return None

    def arg(call, i, name):
        if len(call.args) > i:
            return call.args[i]
        return q.kwarg(call, name)

    def is_src(n):
        return U(n) in ('frame.image', 'image', 'frame.rw.image', 'frame.ro.image')

    def fresh(n):
        """-> (inner expression, True) when n is `<x>.copy()` / np.ascontiguousarray(<x>) / np.array(<x>) else (n, False)"""
        if isinstance(n, ast.Call) and isinstance(n.func, ast.Attribute) and n.func.attr == 'copy' and not n.args:
            return n.func.value, True
        if isinstance(n, ast.Call) and U(n.func) in ('np.ascontiguousarray', 'numpy.ascontiguousarray', 'np.array', 'numpy.array', 'np.copy', 'numpy.copy') and n.args:
            return n.args[0], True
        return n, False

    def reversed_axes(n):
        """axes reversed by a slicing / np.flip* view of the source image, or None"""
        if isinstance(n, ast.Subscript) and is_src(n.value):
            idx = n.slice.elts if isinstance(n.slice, ast.Tuple) else [n.slice]
            axes = set()
            for k, sl in enumerate(idx):
                if not isinstance(sl, ast.Slice):
                    return None
                if sl.lower is None and sl.upper is None and sl.step is None:
                    continue
                if sl.lower is None and sl.upper is None and const_int(sl.step) == -1:
                    axes.add(k)
                else:
                    return None
            return axes
        if isinstance(n, ast.Call) and U(n.func) in ('np.fliplr', 'numpy.fliplr') and n.args and is_src(n.args[0]):
            return {1}
        if isinstance(n, ast.Call) and U(n.func) in ('np.flipud', 'numpy.flipud') and n.args and is_src(n.args[0]):
            return {0}
        if isinstance(n, ast.Call) and U(n.func) in ('np.flip', 'numpy.flip') and n.args and is_src(n.args[0]):
            ax = arg(n, 1, 'axis')
            if ax is None:
                return None
            if const_int(ax) is not None:
                return {const_int(ax)}
            if isinstance(ax, ast.Tuple) and all(const_int(e) is not None for e in ax.elts):
                return {const_int(e) for e in ax.elts}
        return None

    def judge(action, text):
        """-> (True | False | None, reason): accepted idiom / confirmed wrong / outside the table"""
        try:
            n = ast.parse(text, mode='eval').body
        except SyntaxError:
            return None, 'unparsable'
        if action in FMT:
            return (U(n) == f'frame.{FMT[action]}'), f'accessor {U(n)}'
        if not (isinstance(n, ast.Call) and U(n.func) == 'Frame' and len(n.args) >= 2 and U(n.args[1]) == 'frame'):
            return None, 'the result is not Frame(<pixels>, frame)'
        x = n.args[0]
        if action in FLIP_CODE:
            if isinstance(x, ast.Call) and U(x.func) == 'cv2.flip' and x.args and is_src(x.args[0]):
                code = const_int(arg(x, 1, 'flipCode')) if arg(x, 1, 'flipCode') is not None else None
                if code is None:
                    return None, 'flip code is not a literal'
                want = FLIP_CODE[action]
                return (code == want or (want == -1 and code < 0) or (want == 1 and code > 0)), f'cv2.flip code {code}'
            inner, isfresh = fresh(x)
            axes = reversed_axes(inner)
            if axes is not None:
                if axes != FLIP_AXES[action]:
                    return False, f'reverses axes {sorted(axes)}, {action} reverses {sorted(FLIP_AXES[action])}'
                if not isfresh:
                    return False, 'a negative-stride view of the input is handed on: it shares memory with its source and cv2 drawing / in-place functions reject it, so a later transform of the chain fails'
                return True, 'reversed copy'
            return None, 'unrecognised flip idiom'
        if action in ROT:
            cname, k = ROT[action]
            if isinstance(x, ast.Call) and U(x.func) == 'cv2.rotate' and x.args and is_src(x.args[0]):
                code = arg(x, 1, 'rotateCode')
                if code is None or not U(code).startswith('cv2.ROTATE_'):
                    return None, 'rotate code is not a cv2 constant'
                return U(code) == f'cv2.{cname}', U(code)
            inner, isfresh = fresh(x)
            if isinstance(inner, ast.Call) and U(inner.func) in ('np.rot90', 'numpy.rot90') and inner.args and is_src(inner.args[0]):
                kk = arg(inner, 1, 'k')
                kv = 1 if kk is None else const_int(kk)
                if kv is None:
                    return None, 'rot90 count is not a literal'
                if kv % 4 != k % 4:
                    return False, f'np.rot90 k={kv}'
                if not isfresh:
                    return False, 'a strided view of the input is handed on (see flips)'
                return True, 'rot90 copy'
            return None, 'unrecognised rotation idiom'
        return None, 'no table row'

    seen = set()
    for p in paths:
        act = [k[4:k.index("',")] for k, v in p.facts.items() if k.startswith("eq('") and k.endswith(', xform.action)') and v is True]
        if len(act) != 1 or act[0] not in (set(FLIP_CODE) | set(ROT) | set(FMT)):
            continue
        b = [e for e in p.events if e.kind == 'bind' and e.term == 'frame']
        seen.add(act[0])
        if not b:
            rr.violated(f'{act[0]} does not produce a new frame', mod, exe, key=f'op|{act[0]}')
            continue
        v, why = judge(act[0], b[-1].args[0])
        if v is None:
            rr.unresolved(f'{act[0]}: {why} - the operation table of C17.R4 does not know this way of writing it', mod, b[-1].node, witness=b[-1].args[0][:120], key=f'op|{act[0]}')
        else:
            rr.ob(f'{act[0]} is the documented operation (exact permutation of the pixels, handed on as an array of its own)', v, mod, b[-1].node, witness=f'{b[-1].args[0][:100]}: {why}', key=f'op|{act[0]}')
    rr.floor('table rows evaluated', len(seen), 8, mod, exe)
    # executing a transform never writes into the xform record: it is shared by every frame (of any format) that passes
    for name in ('execute_xforms', 'execute_xform_size', 'execute_xform_box'):
        f = repo.find(f'{UT}::Util.{name}')[1]
        params = q.func_params(f)
        xname = 'xform'
        for n in ast.walk(f):
            tg = n.targets if isinstance(n, ast.Assign) else [n.target] if isinstance(n, (ast.AugAssign, ast.AnnAssign)) else []
            for t in tg:
                root = t
                while isinstance(root, (ast.Attribute, ast.Subscript)):
                    root = root.value
                if isinstance(t, (ast.Attribute, ast.Subscript)) and isinstance(root, ast.Name) and root.id == xname:
                    rr.violated(f'{name} stores into the shared xform record ({U(t)}): a value derived from one frame (e.g. a colour converted to that frame\'s channel order) is reused for frames of another format', mod, n, key=f'xform-write|{name}|{U(t)}')
            if isinstance(n, ast.Call) and isinstance(n.func, ast.Attribute) and n.func.attr in ('update', 'setdefault', 'pop', '__setitem__', '__setattr__') and U(n.func.value) == xname:
                rr.violated(f'{name} mutates the shared xform record', mod, n, key=f'xform-mutate|{name}')
    rr.holds('xform records are only read while executing transforms', mod, exe, key='xform-readonly') if not any(o.key.split('|')[3:4] and ('xform-write' in o.key or 'xform-mutate' in o.key) for o in rr.obligations) else None
    _, box = repo.find(f'{UT}::Util.execute_xform_box')
    ev = Evaluator(repo, mod)
    bps = ev.run(box.body)
    ndraw = 0
    for p in bps:
        cnone = p.facts.get('isnone(xform.color)')
        gray = p.facts.get('truthy(frame.is_gray)')
        bgr = p.facts.get('truthy(frame.is_bgr)')
        rect = [e for e in p.events if e.kind == 'call' and e.term == 'cv2.rectangle']
        fill = [e for e in p.events if e.kind == 'store' and e.term.startswith('frame.rw.image[') and isinstance(getattr(e.node, 'slice', None), ast.Tuple)]
        draw = rect or fill
        if not draw:
            continue
        ndraw += 1
        node = draw[0].node
        c = rect[0].args[3] if rect and len(rect[0].args) >= 4 else (fill[0].args[0] if fill else None)
        if cnone is False and c is not None:
            if gray is True:
                rr.ob('box colour on a GRAY frame is the mean of the RGB colour', 'sum(xform.color)' in c and '/ 3' in c, mod, node, witness=c, key='box-gray')
            elif bgr is True:
                rr.ob('box colour on a BGR frame is the RGB colour reversed', c == 'xform.color[::-1]', mod, node, witness=c, key='box-bgr')
            elif bgr is False:
                rr.ob('box colour on an RGB frame is used as given', c == 'xform.color', mod, node, witness=c, key='box-rgb')
            elif gray is False:
                rr.violated('the channel order of the box colour is decided without testing whether the frame is BGR', mod, node, witness=p.pc_text(), key='box-untested')
        text = 'the box corners are the fractional rectangle scaled by the frame: x by the width, y by the height, far corner = near corner + (box width, box height)'
        if rect:
            # cv2.rectangle paints BOTH corners: the far corner handed to it has to be the last pixel inside the rectangle (one less than the scaled far edge), and the
            # coordinates have to be kept within what OpenCV accepts
            a1, a2 = rect[0].args[1].replace(' ', ''), rect[0].args[2].replace(' ', '')
            swapped = any(t in a1 + a2 for t in ('frame.height*xform.x', 'frame.width*xform.y', 'frame.height*(xform.x', 'frame.width*(xform.y')) or \
                ('xform.x+xform.width' not in a2 and 'xform.width' in a2) or ('xform.y+xform.height' not in a2 and 'xform.height' in a2)
            if swapped:
                rr.violated(text, mod, node, witness=f'{a1} .. {a2}'[:200], key='box-geometry')
            inclusive = a2 == '(int(frame.width*(xform.x+xform.width)),int(frame.height*(xform.y+xform.height)))'
            if inclusive:
                rr.violated('the box is drawn only inside its rectangle: cv2.rectangle paints its far corner too, and that corner is given as the scaled far EDGE - one row and one column beyond the rectangle '
                            '(an empty box paints a pixel, an unclipped coordinate overflows)', mod, node, witness=a2[:120], key='box-far-edge-exclusive')
            elif not swapped:
                rr.unresolved('the far corner handed to cv2.rectangle is computed in a way this rule does not know', mod, node, witness=a2[:160], key='box-far-edge-exclusive')
            rr.ob('the box is drawn on a writable copy-on-need of the frame image (frame.rw.image), filled (-1)', rect[0].args[0] == 'frame.rw.image' and rect[0].args[-1] in ('-1',), mod, node, witness=str(rect[0].args[:1]), key='box-rw')
        else:
            sl = fill[0].node.slice.elts
            rows, cols = sl[0], sl[1]
            okform = isinstance(rows, ast.Slice) and isinstance(cols, ast.Slice) and rows.step is None and cols.step is None and all(x is not None for x in (rows.lower, rows.upper, cols.lower, cols.upper))
            if not okform:
                rr.unresolved('the box is painted by a store this rule does not know', mod, node, witness=U(fill[0].node)[:100], key='box-geometry')
                continue
            def val(nm):       # the (last) term bound to a local on this path
                b_ = [e for e in p.events if e.kind == 'bind' and e.term == U(nm)]
                return b_[-1].args[0].replace(' ', '') if b_ else U(nm).replace(' ', '')
            ry0, ry1, cx0, cx1 = val(rows.lower), val(rows.upper), val(cols.lower), val(cols.upper)
            def scaled(t, dim, frac):     # max(0, min(dim, int(dim * frac))) with dim / frac as given
                return t == f'max(0,min({dim},int({dim}*{frac})))'
            W, H = 'frame.width', 'frame.height'
            good = scaled(cx0, W, 'xform.x') and scaled(cx1, W, '(xform.x+xform.width)') and scaled(ry0, H, 'xform.y') and scaled(ry1, H, '(xform.y+xform.height)')
            alt = good or (scaled(cx0, W, 'xform.x') and cx1 == f'max(0,min({W},int({W}*(xform.x+xform.width))))')
            swapped = any(t_ in cx0 + cx1 for t_ in (H,)) or any(t_ in ry0 + ry1 for t_ in (W,)) or 'xform.y' in cx0 + cx1 or 'xform.x' in ry0 + ry1 or \
                ('xform.x+xform.width' not in cx1 and 'xform.width' in cx1) or ('xform.y+xform.height' not in ry1 and 'xform.height' in ry1)       # far edge = size, not position + size
            if good:
                rr.holds(text + '; rows are indexed by y, columns by x, each edge clipped to the image, far edges exclusive (a half-open slice)', mod, node, key='box-geometry')
                rr.holds('the box is drawn only inside its rectangle (half-open slice over the clipped pixel rectangle)', mod, node, key='box-far-edge-exclusive')
            elif swapped:
                rr.violated(text, mod, node, witness=f'rows {ry0}:{ry1}, columns {cx0}:{cx1}'[:240], key='box-geometry')
            else:
                rr.unresolved('the box corners are computed in a way the rule does not know', mod, node, witness=f'rows {ry0}:{ry1}, columns {cx0}:{cx1}'[:240], key='box-geometry')
            rr.ob('the box is drawn on a writable copy-on-need of the frame image (frame.rw.image)', fill[0].term.startswith('frame.rw.image['), mod, node, witness=fill[0].term[:60], key='box-rw')
    rr.floor('paths of execute_xform_box that draw', ndraw, 3, mod, box)


def _strip_bounds(n):
    """peel max(1, .), min(., bound), max(., bound) wrappers off a dimension term -> the scaled core"""
    while isinstance(n, ast.Call) and isinstance(n.func, ast.Name) and n.func.id in ('max', 'min') and len(n.args) == 2:
        a, b = n.args
        if isinstance(a, ast.Constant):
            n = b
        elif isinstance(b, ast.Constant):
            n = a
        elif U(b).startswith('xform.') and not U(a).startswith('xform.'):
            n = a
        elif U(a).startswith('xform.') and not U(b).startswith('xform.'):
            n = b
        else:
            break
    return n


def _factor(core, dim):
    """which ratio scales `frame.<dim>` in core: 'id' | 'wr' (xform.width / frame.width) | 'hr' | 'min' | 'max' | None"""
    t = U(core).replace(' ', '')
    if t == f'frame.{dim}':
        return 'id'
    if not (isinstance(core, ast.Call) and U(core.func) == 'int' and len(core.args) == 1):
        return None
    e = U(core.args[0]).replace(' ', '')
    wr, hr = 'xform.width/frame.width', 'xform.height/frame.height'
    if e == f'frame.{dim}*{wr}':
        return 'wr'
    if e == f'frame.{dim}*{hr}':
        return 'hr'
    for f in ('min', 'max'):
        if e in (f'frame.{dim}*{f}({wr},{hr})', f'frame.{dim}*{f}({hr},{wr})'):
            return f
    return None


@rule('C17.R5', "the 'x' forms keep the aspect ratio by construction: whenever maxsize / minsize rescale, width and height are multiplied by ONE common ratio - the width ratio, the height ratio, or their min (maxsize) / "
                "max (minsize) - the dimension that is not scaled is exactly the one the bound fixes, and the '+' forms (aspect off) never scale")
def r5(rr, repo):
    mod, fn, paths = util_size_paths(repo)
    rr.paths += len(paths)
    seen = set()
    for p in paths:
        act = action_of(p)
        if act not in ('maxsize', 'minsize'):
            continue
        asp = p.facts.get("truthy(xform.get('aspect', True))")
        for e in resize_calls(p):
            size = e.value.args[1]
            if not (isinstance(size, ast.Tuple) and len(size.elts) == 2):
                continue
            fw, fh = _factor(_strip_bounds(size.elts[0]), 'width'), _factor(_strip_bounds(size.elts[1]), 'height')
            if fw is None or fh is None:
                rr.unresolved(f'{act}: a dimension handed to cv2.resize is not frame.<dim> times a recognised ratio', mod, e.node, witness=U(size)[:160], key=f'aspect-form|{act}')
                continue
            both = 'min' if act == 'maxsize' else 'max'
            if asp is False:
                rr.ob(f"{act} with '+' (aspect off): neither dimension is scaled, each is only bounded", (fw, fh) == ('id', 'id'), mod, e.node, witness=f'({fw}, {fh})', key=f'aspect-off|{act}')
                continue
            ok = (fw, fh) in (('id', 'id'), ('id', 'wr'), ('hr', 'id'), (both, both))
            seen.add((act, fw, fh))
            rr.ob(f'{act}: width and height are scaled by one common ratio (width ratio with the width bound, height ratio with the height bound, or {both} of the two for both)', ok, mod, e.node,
                  witness=f'width x {fw}, height x {fh}: {U(size)[:120]}', key=f'aspect|{act}|{fw}|{fh}')
            # the unscaled dimension must be the one that is over / under its bound (it becomes the bound = itself times the same ratio)
            rel_h = [v for k, v in p.pc if k == 'ord(frame.height, xform.height)']
            over = '>' if act == 'maxsize' else '<'
            if (fw, fh) == ('id', 'wr') and rel_h:
                rr.ob(f'{act}: height is scaled by the width ratio only when the height itself is within its bound', rel_h[-1] != over, mod, e.node, witness=p.pc_text()[-120:], key=f'aspect-case|{act}|wr')
            if (fw, fh) == ('hr', 'id') and rel_h:
                rr.ob(f'{act}: width is scaled by the height ratio only when the height is beyond its bound', rel_h[-1] == over, mod, e.node, witness=p.pc_text()[-120:], key=f'aspect-case|{act}|hr')
    for act in ('maxsize', 'minsize'):
        both = 'min' if act == 'maxsize' else 'max'
        rr.ob(f'{act} has all three rescaling cases (width ratio, height ratio, {both} of both)', {(act, 'id', 'wr'), (act, 'hr', 'id'), (act, both, both)} <= seen, mod, fn, witness=str(sorted(x[1:] for x in seen if x[0] == act)), key=f'aspect-cases|{act}')


@rule('C17.R6', "'WxH' means width first: the size pattern's first number becomes the width bound, the second the height bound, the separator decides the aspect mode ('x' keeps the aspect, '+' bounds independently), "
                'in the Util filter and in the video reader alike; the box pattern fills x, y, width, height in the order it is written')
def r6(rr, repo):
    import re._parser as sp
    import re._constants as sc
    mod, nc = repo.find(f'{UT}::Util.normalize_config')
    # the pattern
    pats = {}
    for m_ in (repo.module(UT), repo.module(VI)):
        for st in m_.tree.body:
            if isinstance(st, ast.Assign) and isinstance(st.targets[0], ast.Name) and st.targets[0].id in ('re_size', 're_box') and isinstance(st.value, ast.Call) and st.value.args and q.const_str(st.value.args[0]):
                pats[(m_.relpath, st.targets[0].id)] = (st.value.args[0].value, st)
    def groups(pattern):
        out = []
        for op, av in sp.parse(pattern, re.VERBOSE | re.IGNORECASE):
            if op is sc.SUBPATTERN and av[0] is not None:
                inner = list(av[3])
                if len(inner) == 1 and inner[0][0] is sc.MAX_REPEAT and list(inner[0][1][2]) == [(sc.IN, [(sc.CATEGORY, sc.CATEGORY_DIGIT)])]:
                    out.append('digits')
                elif len(inner) == 1 and inner[0][0] is sc.IN:
                    out.append('sep:' + ''.join(sorted(chr(v) for o_, v in inner[0][1] if o_ is sc.LITERAL)))
                else:
                    out.append('other')
            elif op is sc.MAX_REPEAT and list(av[2]) and list(av[2])[0][0] is sc.SUBPATTERN and list(av[2])[0][1][0] is not None:
                out.append('optional')
        return out
    for key, (pat, st) in pats.items():
        if key[1] != 're_size':
            continue
        g = groups(pat)
        rr.ob(f'{key[0]}: the size pattern captures <number> <x or +> <number> [interpolation] in that order', g[:3] == ['digits', 'sep:+x', 'digits'] and len(g) == 4, repo.module(key[0]), st, witness=str(g), key=f'size-pattern|{key[0]}')
    sizes = sorted({p for (f_, n_), (p, _) in pats.items() if n_ == 're_size'})
    rr.ob('the Util filter and the video reader parse sizes with the same pattern', len(sizes) == 1 and len([k for k in pats if k[1] == 're_size']) == 2, mod, nc, witness=f'{len(sizes)} distinct patterns', key='size-pattern-same')
    # Util.normalize_config: unpack order and stores
    unp = [n for n in walk_scope(nc) if isinstance(n, ast.Assign) and isinstance(n.targets[0], ast.Tuple) and U(n.value).endswith('.groups()')]
    un4 = [n for n in unp if len(n.targets[0].elts) == 4]
    rr.floor('size unpackings in Util.normalize_config', len(un4), 1, mod, nc)
    for n in un4:
        a, b, c, d = [U(e) for e in n.targets[0].elts]
        _, lst, idx = stmt_list_containing(n)
        st = {U(s.targets[0]): U(s.value) for s in lst[idx + 1:] if isinstance(s, ast.Assign) and len(s.targets) == 1}
        rr.ob('the first number is the width bound, the second the height bound', st.get('xform.width') == f'int({a})' and st.get('xform.height') == f'int({c})', mod, n, witness=str({k: v for k, v in st.items() if k.startswith('xform.')}), key='size-fields')
        asp = [s for s in lst[idx + 1:] if isinstance(s, ast.If) and isinstance(s.test, ast.Compare) and len(s.test.ops) == 1 and U(s.test.left) in (b, f'{b}.lower()', f'{b}.upper()')
               and q.const_str(s.test.comparators[0]) is not None]
        if not asp:
            rr.unresolved("Util.normalize_config: no test of the size separator against a literal decides the aspect mode", mod, n, key='size-aspect-form')
            continue
        t = asp[0].test
        lit, folded, ne = t.comparators[0].value, U(t.left) != b, isinstance(t.ops[0], ast.NotEq)
        icase = any('IGNORECASE' in U(a) or U(a).endswith('re.I') for (f_, n_), (p_, st_) in pats.items() if f_ == UT and n_ == 're_size' for a in st_.value.args[1:])
        off_when_plus = (lit == '+' and not ne) or (lit.lower() == 'x' and ne)       # the branch taken for '+' ...
        stores_off = any(isinstance(x, ast.Assign) and U(x.targets[0]) == 'xform.aspect' and U(x.value) == 'False' for x in asp[0].body)
        rr.ob("the aspect mode is switched off on the '+' branch of the separator test", off_when_plus and stores_off, mod, asp[0], witness=U(t), key='size-aspect')
        # ... and only for '+': the pattern matches the letter in either case, so a test against the letter has to fold the case (or test for '+', which has none)
        exact = lit == '+' or not icase or (folded and lit == (lit.lower() if U(t.left).endswith('.lower()') else lit.upper()))
        rr.ob("the separator test treats every spelling the pattern accepts alike: the pattern is case-insensitive, so 'X' must select the same (aspect-keeping) mode as 'x'", exact, mod, asp[0],
              witness=f'{U(t)} with a {"case-insensitive" if icase else "case-sensitive"} pattern', key='size-aspect-case')
    # a size with a zero side can never be honoured (OpenCV refuses it for every image): both parsers refuse it when the configuration is read
    def zero_refused(fn_, names):
        for r in [x for x in ast.walk(fn_) if isinstance(x, ast.If) and any(isinstance(y, ast.Raise) for y in x.body)]:
            t = U(r.test).replace(' ', '')
            if isinstance(r.test, ast.BoolOp) and isinstance(r.test.op, ast.Or) and all(isinstance(v, ast.UnaryOp) and isinstance(v.op, ast.Not) for v in r.test.values) and len(r.test.values) == 2:
                return r
            if all(f'{n_}<1' in t or f'{n_}<=0' in t or f'{n_}==0' in t for n_ in names):
                return r
        return None
    zr = zero_refused(nc, ['xform.width', 'xform.height'])
    rr.ob('Util.normalize_config refuses a size whose width or height is 0', zr is not None, mod, zr if zr is not None else nc, witness=U(zr.test)[:80] if zr is not None else 'no such test', key='size-zero-refused|util')
    _, vps = repo.find(f'{VI}::parse_size')
    zv = zero_refused(vps, ['int(m.group(1))', 'int(m.group(3))'])
    rr.ob('the video reader refuses a size whose width or height is 0', zv is not None, repo.module(VI), zv if zv is not None else vps, witness=U(zv.test)[:80] if zv is not None else 'no such test', key='size-zero-refused|video')
    un5 = [n for n in unp if len(n.targets[0].elts) == 5]
    for n in un5:
        names = [U(e) for e in n.targets[0].elts]
        _, lst, idx = stmt_list_containing(n)
        st = {U(s.targets[0]): U(s.value) for s in lst[idx + 1:] if isinstance(s, ast.Assign) and len(s.targets) == 1}
        want = {'xform.x': f'float({names[0]})', 'xform.y': f'float({names[1]})', 'xform.width': f'float({names[2]})', 'xform.height': f'float({names[3]})'}
        rr.ob("box 'X+YxWxH': the four numbers fill x, y, width, height in the order written", all(st.get(k) == v for k, v in want.items()), mod, n, witness=str({k: st.get(k) for k in want}), key='box-fields')
    # the video reader uses the groups positionally: (width, aspect, height, interp) = self.maxsize / self.resize
    vmod, vfn, region, vpaths = video_paths(repo)
    unv = [n for n in ast.walk(vfn) if isinstance(n, ast.Assign) and isinstance(n.targets[0], ast.Tuple) and len(n.targets[0].elts) == 4 and U(n.value) in ('size', 'self.maxsize', 'self.resize', 'maxsize', 'resize')]
    for n in unv:
        names = [U(e) for e in n.targets[0].elts]
        rr.ob('video reader: the parsed size is taken apart as (width, aspect, height, interpolation)', names[0].startswith('w') and names[2].startswith('h') and 'asp' in names[1], vmod, n, witness=str(names), key='vsize-unpack')
        sep = names[1]
        conv = [a for a in ast.walk(vfn) if isinstance(a, ast.Assign) and len(a.targets) == 1 and U(a.targets[0]) == sep and isinstance(a.value, ast.Compare) and U(a.value.left) == sep and q.const_str(a.value.comparators[0])]
        okc = len(conv) == 1 and ((isinstance(conv[0].value.ops[0], ast.NotEq) and conv[0].value.comparators[0].value == '+') or (isinstance(conv[0].value.ops[0], ast.Eq) and conv[0].value.comparators[0].value.lower() == 'x'))
        rr.ob("video reader: the aspect mode is on exactly when the separator is 'x' (not '+')", okc, vmod, conv[0] if conv else n, witness=U(conv[0].value) if conv else 'no conversion of the separator into a flag', key='vsize-aspect')
        ints = {U(a.targets[0]): U(a.value) for a in ast.walk(vfn) if isinstance(a, ast.Assign) and len(a.targets) == 1 and isinstance(a.value, ast.Call) and U(a.value.func) == 'int'}
        rr.ob('video reader: the first number is the width bound, the second the height bound', ints.get(names[0]) == f'int({names[0]})' and ints.get(names[2]) == f'int({names[2]})', vmod, n, witness=str(ints), key='vsize-fields')


@rule('C17.R7', "a chain of transforms is applied in the order it was configured: every topic's chain starts empty and is filled by ONE pass over the configured list (all-topics and topic-specific transforms "
                'interleaved as written), and execute_xforms walks that chain front to back')
def r7(rr, repo):
    mod, setup = repo.find(f'{UT}::Util.setup')
    _, proc = repo.find(f'{UT}::Util.process')
    _, exe = repo.find(f'{UT}::Util.execute_xforms')
    st = [n for n in walk_scope(setup) if isinstance(n, ast.Assign) and any(U(t) == 'self.xforms' for t in n.targets)]
    rr.ob('the filter keeps the configured list of transforms as it is (one list, not split, filtered or sorted)', len(st) == 1 and U(st[0].value) in ('config.xforms', 'config.xforms or []', 'list(config.xforms)'), mod, st[0] if st else setup,
          witness=U(st[0].value)[:80] if st else 'no store', key='xforms-kept')
    other = [n for n in ast.walk(setup) if isinstance(n, ast.Assign) and any(isinstance(t, ast.Attribute) and 'xform' in t.attr and t.attr != 'xforms' for t in n.targets)]
    rr.ob('no second list of transforms is derived in setup', not other, mod, other[0] if other else setup, witness='; '.join(U(n.targets[0]) for n in other), key='xforms-single-list')
    # normalize_config keeps every configured transform, in the order written: one loop over the list, whose every iteration either raises or appends exactly its own transform
    _, nc = repo.find(f'{UT}::Util.normalize_config')
    nloops = [n for n in walk_scope(nc) if isinstance(n, ast.For) and U(n.iter) == 'xforms' and isinstance(n.target, ast.Name)]
    rr.floor('normalising loops over the configured transforms', len(nloops), 1, mod, nc)
    for lp in nloops[:1]:
        var = lp.target.id
        apps = [c for c in ast.walk(lp) if isinstance(c, ast.Call) and isinstance(c.func, ast.Attribute) and c.func.attr in ('append', 'extend', 'insert') and isinstance(c.func.value, ast.Name)]
        acc = {c.func.value.id for c in apps}
        ok = len(apps) == 1 and apps[0].func.attr == 'append' and U(apps[0].args[0]) == var and not q.guards_of(apps[0], stop=lp) and q.enclosing_stmt(apps[0]) is lp.body[-1]
        skips = [n for n in walk_scope(lp) if isinstance(n, (ast.Continue, ast.Break, ast.Return)) and n is not lp]
        rr.ob('normalize_config keeps every configured transform: each pass of its loop ends by appending that transform (unconditionally, last statement) and nothing leaves a pass early except an error', ok and not skips, mod,
              skips[0] if skips else (apps[0] if apps else lp), witness=(f'{type(skips[0]).__name__.lower()} at line {skips[0].lineno}' if skips else '; '.join(U(c)[:60] + (' under ' + ' && '.join(U(t) for t, _ in q.guards_of(c, stop=lp))[:80] if q.guards_of(c, stop=lp) else '') for c in apps)) or 'no append', key='normalize-keeps-all')
        if len(acc) == 1:
            a = next(iter(acc))
            muts = [c for c in q.calls_in(nc) if isinstance(c.func, ast.Attribute) and U(c.func.value) == a and c.func.attr in ('pop', 'remove', 'insert', 'sort', 'reverse', 'clear', 'extend')] + \
                   [n for n in ast.walk(nc) if isinstance(n, ast.Delete) and any(U(t).startswith(a + '[') for t in n.targets)] + \
                   [n for n in ast.walk(nc) if isinstance(n, ast.Assign) and any(U(t).startswith(a + '[') for t in n.targets)]
            rr.ob('the normalised list is only ever appended to', not muts, mod, muts[0] if muts else lp, witness=U(muts[0])[:80] if muts else 'append only', key='normalize-append-only')
            fin = [n for n in walk_scope(nc) if isinstance(n, ast.Assign) and any(U(t) == 'config.xforms' for t in n.targets)]
            rr.ob('the normalised list as a whole becomes config.xforms', len(fin) == 1 and U(fin[0].value) == a and fin[0].lineno > lp.end_lineno, mod, fin[0] if fin else nc, witness=U(fin[0].value)[:60] if fin else 'no store', key='normalize-stored-whole')
    # process(): chains start empty
    chains = [k for k in ast.walk(proc) if isinstance(k, ast.keyword) and k.arg == 'xforms']
    rr.floor('per-topic chain initialisations', len(chains), 1, mod, proc)
    for k in chains:
        rr.ob("every topic's chain starts empty", isinstance(k.value, ast.List) and not k.value.elts, mod, k.value, witness=U(k.value)[:60], key='chain-empty')
    loops = [n for n in walk_scope(proc) if isinstance(n, ast.For) and not any(isinstance(a, ast.For) for a in ancestors(n)) and any(isinstance(c, ast.Call) and isinstance(c.func, ast.Attribute) and c.func.attr in ('append', 'extend', 'insert') and U(c.func.value).endswith('.xforms') for c in ast.walk(n))]
    rr.ob('the chains are filled by one pass', len(loops) == 1, mod, loops[0] if loops else proc, witness=f'{len(loops)} filling loops', key='chain-one-pass')
    for lp in loops[:1]:
        it = U(lp.iter)
        src_ok = it == 'self.xforms' or any(isinstance(n, ast.NamedExpr) and n.target.id == it and U(n.value) == 'self.xforms' for n in ast.walk(proc)) or \
            any(isinstance(n, ast.Assign) and U(n.targets[0]) == it and U(n.value) == 'self.xforms' for n in ast.walk(proc))
        rr.ob('that pass walks the configured list itself, front to back', src_ok, mod, lp, witness=it, key='chain-source')
        var = U(lp.target)
        for c in [c for c in ast.walk(lp) if isinstance(c, ast.Call) and isinstance(c.func, ast.Attribute) and U(c.func.value).endswith('.xforms') and c.func.attr in ('append', 'extend', 'insert')]:
            rr.ob('a transform is appended (to the end of) the chain of each topic it applies to', c.func.attr == 'append' and len(c.args) == 1 and U(c.args[0]) == var, mod, c, witness=U(c)[:80], key='chain-append')
    sorts = [c for c in q.calls_in(proc) if (isinstance(c.func, ast.Attribute) and c.func.attr in ('sort', 'reverse')) or U(c.func) in ('sorted', 'reversed')]
    rr.ob('nothing reorders the chains', not sorts, mod, sorts[0] if sorts else proc, key='chain-no-reorder')
    # execute_xforms walks the chain in order
    ex = [n for n in walk_scope(exe) if isinstance(n, ast.For) and U(n.iter).endswith('.xforms')]
    rr.ob('execute_xforms applies the chain front to back (plain iteration over the list)', len(ex) == 1, mod, ex[0] if ex else exe, witness='; '.join(U(n.iter) for n in walk_scope(exe) if isinstance(n, ast.For))[:100], key='chain-executed-in-order')


def _vfactor_int(core, dim_term, W='width', H='height', w='image.shape[1]', h='image.shape[0]'):
    """the same classification for integer arithmetic: `dim * W // w` is the frame dimension times the width ratio, rounded down exactly"""
    t = U(core).replace(' ', '')
    if t == W:
        return 'bound-w'
    if t == H:
        return 'bound-h'
    if t == dim_term:
        return 'id'
    if t in (f'{dim_term}*{W}//{w}', f'{W}*{dim_term}//{w}'):
        return 'wr'
    if t in (f'{dim_term}*{H}//{h}', f'{H}*{dim_term}//{h}'):
        return 'hr'
    return _vfactor(core, dim_term, W, H, w, h)


def _vfactor(core, dim_term, W='width', H='height', w='image.shape[1]', h='image.shape[0]'):
    """video reader terms: which ratio scales the frame dimension `dim_term` in core: 'id' | 'wr' | 'hr' | 'min' | 'max' | 'bound-w' | 'bound-h' | None"""
    t = U(core).replace(' ', '')
    if t == dim_term:
        return 'id'
    if t == W:
        return 'bound-w'
    if t == H:
        return 'bound-h'
    if not (isinstance(core, ast.Call) and U(core.func) == 'int' and len(core.args) == 1):
        return None
    e = U(core.args[0]).replace(' ', '')
    wr, hr = f'{W}/{w}', f'{H}/{h}'
    return _vratio(e, dim_term, wr, hr)


def _vratio(e, dim_term, wr, hr):
    if e == f'{dim_term}*{wr}':
        return 'wr'
    if e == f'{dim_term}*{hr}':
        return 'hr'
    for f in ('min', 'max'):
        if e in (f'{dim_term}*{f}({wr},{hr})', f'{dim_term}*{f}({hr},{wr})'):
            return f
    return None


@rule('C17.R8', "the video reader obeys the same size laws: 'maxsize' scales both dimensions by one common ratio and only shrinks; the aspect-keeping 'resize' yields the largest size with the frame's aspect "
                "INSIDE the requested box - one dimension is set to its bound and the other scaled by the same ratio only when that ratio is the smaller one - and the '+' form yields exactly the requested pair")
def r8(rr, repo):
    vmod, vfn, region, vpaths = video_paths(repo)
    rr.paths += len(vpaths)
    wt, ht = 'image.shape[1]', 'image.shape[0]'
    seen = set()
    for p in vpaths:
        mx = p.facts.get('truthy(maxsize)')
        asp = p.facts.get('truthy(aspect)')
        for e in resize_calls(p):
            size = e.value.args[1]
            if not (isinstance(size, ast.Tuple) and len(size.elts) == 2):
                continue
            cw, ch = _strip_bounds_v(size.elts[0]), _strip_bounds_v(size.elts[1])
            fw, fh = _vfactor_int(cw, wt), _vfactor_int(ch, ht)
            # which ratio is the smaller one on this path, if the code compared them (cross-multiplied: width * h against height * w)
            smaller = None
            for k, v in p.pc:
                m_ = re.fullmatch(r'ord\((.+?) \* (.+?), (.+?) \* (.+?)\)', k)
                if not m_:
                    continue
                A, B = {m_.group(1), m_.group(2)}, {m_.group(3), m_.group(4)}
                if A == {'height', wt} and B == {'width', ht}:        # height * w  ?  width * h   <=>   height / h  ?  width / w
                    smaller = {'<': 'hr', '>': 'wr', '=': 'eq'}.get(v, smaller)
                elif A == {'width', ht} and B == {'height', wt}:
                    smaller = {'<': 'wr', '>': 'hr', '=': 'eq'}.get(v, smaller)
            if fw is None or fh is None:
                rr.unresolved('video reader: a dimension handed to cv2.resize is not the frame dimension times a recognised ratio', vmod, e.node, witness=U(size)[:160], key='vaspect-form')
                continue
            rel_w = [v for k, v in p.pc if k in (f'ord({wt}, width)',)]
            rel_h = [v for k, v in p.pc if k in (f'ord(height, {ht})',)]
            w_over = (rel_w[-1] == '>') if rel_w else None
            h_over = (rel_h[-1] == '<') if rel_h else None     # ord(height, h) '<' means h > height
            if mx is True:
                if asp is False:
                    rr.ob("video reader maxsize '+': nothing is scaled, each dimension is only bounded", (fw, fh) == ('id', 'id'), vmod, e.node, witness=f'({fw}, {fh})', key='vaspect-off|maxsize')
                    continue
                seen.add(('maxsize', fw, fh))
                rr.ob('video reader maxsize: width and height are scaled by one common ratio (width ratio, height ratio or the min of both)', (fw, fh) in (('id', 'id'), ('id', 'wr'), ('hr', 'id'), ('min', 'min')), vmod, e.node,
                      witness=f'width x {fw}, height x {fh}', key=f'vaspect|maxsize|{fw}|{fh}')
            elif mx is False:
                if asp is False:
                    rr.ob("video reader resize '+': exactly the requested pair", (fw, fh) == ('bound-w', 'bound-h'), vmod, e.node, witness=U(size)[:80], key='vresize-exact')
                    continue
                seen.add(('resize', fw, fh))
                ok = (fw, fh) in (('min', 'min'), ('id', 'id'))
                why = f'width x {fw}, height x {fh}'
                if (fw, fh) == ('bound-w', 'wr'):
                    # width := bound, height scaled by the width ratio: inside the box only if the width ratio is the smaller one, i.e. the frame is wider than the box (its height being right already)
                    # - or the code has just compared the two ratios and found the width ratio to be the smaller (or equal) one
                    ok = w_over is True or smaller in ('wr', 'eq')
                    why += f'; frame wider than the box: {w_over}; smaller ratio on this path: {smaller}'
                    if smaller in ('wr', 'eq'):
                        seen.add(('resize', 'cmp', 'w'))
                elif (fw, fh) == ('hr', 'bound-h'):
                    ok = h_over is True or smaller in ('hr', 'eq')
                    why += f'; frame higher than the box: {h_over}; smaller ratio on this path: {smaller}'
                    if smaller in ('hr', 'eq'):
                        seen.add(('resize', 'cmp', 'h'))
                rr.ob("video reader aspect-keeping resize: the result lies inside the requested box (a bound is imposed on one dimension only when the frame exceeds it there; otherwise both are scaled by the smaller ratio or left alone)",
                      ok, vmod, e.node, witness=why + ' | ' + p.pc_text()[-160:], key=f'vresize|{fw}|{fh}')
                if (fw, fh) == ('min', 'min'):
                    # the LARGEST size inside the box touches the box on its limiting side: int(w * (width / w)) does not - in floating point the product can come out just below width and is cut to
                    # width - 1 (720 * (416 / 720) = 415.99999999999994); the limiting side has to be the bound itself
                    rr.ob("video reader aspect-keeping resize: the limiting side of the general case is the requested bound itself, not a rounded-down product that can fall one short of it", False, vmod, e.node,
                          witness=U(size)[:140], key='vresize-limiting-side-exact')
    rr.ob('video reader maxsize has all three rescaling cases', {('maxsize', 'id', 'wr'), ('maxsize', 'hr', 'id'), ('maxsize', 'min', 'min')} <= seen, vmod, vfn, witness=str(sorted(x for x in seen if x[0] == 'maxsize')), key='vaspect-cases|maxsize')
    if {('resize', 'cmp', 'w'), ('resize', 'cmp', 'h')} <= seen:
        seen.add(('resize', 'min', 'min'))       # the general case written as a comparison of the two ratios with one arm per limiting side
    rr.ob('video reader aspect-keeping resize has a general case scaled by the smaller ratio', ('resize', 'min', 'min') in seen, vmod, vfn, witness=str(sorted(x for x in seen if x[0] == 'resize')), key='vaspect-cases|resize')


def _strip_bounds_v(n):
    """peel max(1, .) and min(bound, .) wrappers (video reader writes min(width, w))"""
    while isinstance(n, ast.Call) and isinstance(n.func, ast.Name) and n.func.id in ('max', 'min') and len(n.args) == 2:
        a, b = n.args
        if isinstance(a, ast.Constant):
            n = b
        elif isinstance(b, ast.Constant):
            n = a
        elif U(a) in ('width', 'height') and U(b) not in ('width', 'height'):
            n = b
        elif U(b) in ('width', 'height') and U(a) not in ('width', 'height'):
            n = a
        else:
            break
    return n


@rule('C17.R9', "a box is drawn into pixels nobody else holds: the writable copy the box transform asks a read-only frame for is made for that call alone (shares C10.R13)")
def r9(rr, repo):
    from .c10 import r13 as c10r13
    c10r13(rr, repo)


@rule('C17.R10', "the size option a source carries itself ('file://v.mp4!maxsize=160x100') is the one its reader applies: VideoIn.setup merges the filter-wide options and the source's own so that the source's own come "
                 "LAST (later entries of a dict display win) - the other way round a filter-wide maxsize / resize silently replaces the bound the user wrote on the source, and the frames come out larger than "
                 "that bound allows")
def r10(rr, repo):
    VIN = 'openfilter/filter_runtime/filters/video_in.py'
    mod, setup = repo.find(f'{VIN}::VideoIn.setup')
    calls = [c for c in q.calls_in(setup) if U(c.func).endswith('MultiVideoReader')]
    rr.floor('constructions of the multi reader in VideoIn.setup', len(calls), 1, mod, setup)
    for c in calls:
        comps = [a for a in c.args if isinstance(a, ast.ListComp)] + [k.value for k in c.keywords if isinstance(k.value, ast.ListComp)]
        merges = [(lc, lc.elt) for lc in comps if isinstance(lc.elt, ast.Dict) and lc.elt.keys and all(k is None for k in lc.elt.keys) and len(lc.generators) == 1]
        if not merges:
            rr.unresolved('how the per-source options are merged with the filter-wide ones was not recognised', mod, c, witness=U(c)[:120], key='per-source-options-win')
            continue
        for lc, d in merges:
            var = U(lc.generators[0].target)
            order = [U(v) for v in d.values]
            own = [i for i, v in enumerate(order) if v == var]
            if len(own) != 1 or len(order) < 2:
                rr.unresolved('the merge of the options does not have the form {**filter_wide, **own}', mod, d, witness=U(d)[:100], key='per-source-options-win')
                continue
            rr.ob("the source's own options are the last entry of the merge (they win over the filter-wide ones)", own[0] == len(order) - 1, mod, d, witness=f'{U(d)} for {var} in {U(lc.generators[0].iter)}',
                  key='per-source-options-win')
            # the iterated list holds what the sources carry (source.options), one entry per source
            it = U(lc.generators[0].iter)
            fed = [a for a in q.calls_in(setup) if U(a.func) == f'{it}.append' and a.args and 'options' in U(a.args[0])]
            rr.ob("the merged entries are the options each source carries itself", bool(fed), mod, lc, witness=U(fed[0])[:80] if fed else f'nothing appends source options to {it}', key='per-source-options-fed')


@rule('C17.R11', "every transformed image goes back under its own topic: Util.process writes the results of the per-topic chains back keyed by the topic each result carries - only topics that have an image get a "
                 "chain, so pairing the results with the incoming topics by position shifts them as soon as a data-only topic comes first (it is overwritten with another topic's image, the last image leaves "
                 "untransformed)")
def r11(rr, repo):
    mod, proc = repo.find(f'{UT}::Util.process')
    res = [n for n in walk_scope(proc) if isinstance(n, ast.Assign) and isinstance(n.value, ast.Call) and 'execute_xforms' in U(n.value) and ('.map(' in U(n.value) or 'map(' in U(n.value))]
    rr.floor('parallel executions of the per-topic chains', len(res), 1, mod, proc)
    for r in res:
        name = U(r.targets[0])
        loops = [n for n in walk_scope(proc) if isinstance(n, ast.For) and any(isinstance(x, ast.Name) and x.id == name for x in ast.walk(n.iter)) and n.lineno > r.lineno]
        if len(loops) != 1:
            rr.unresolved('how the results of the chains are written back was not recognised', mod, r, witness=f'{len(loops)} loops over {name}', key='writeback-by-own-topic')
            continue
        lp = loops[0]
        direct = isinstance(lp.iter, ast.Name) and lp.iter.id == name and isinstance(lp.target, ast.Name)
        stores = [a for a in lp.body if isinstance(a, ast.Assign) and isinstance(a.targets[0], ast.Subscript) and U(a.targets[0].value) == 'frames']
        if direct and len(stores) == 1:
            el = lp.target.id
            ok = U(stores[0].targets[0].slice) == f'{el}.topic' and U(stores[0].value) == f'{el}.frame'
            rr.ob('a result is stored under the topic it carries itself', ok, mod, stores[0], witness=U(stores[0])[:80], key='writeback-by-own-topic')
        elif stores and any(isinstance(c, ast.Call) and U(c.func) in ('zip', 'enumerate') for c in ast.walk(lp.iter)):
            rr.ob('a result is stored under the topic it carries itself', False, mod, lp, witness=f'for {U(lp.target)} in {U(lp.iter)}: results are paired with topics by position', key='writeback-by-own-topic')
        else:
            rr.unresolved('how the results of the chains are written back was not recognised', mod, lp, witness=U(lp.iter)[:80], key='writeback-by-own-topic')


@rule('C17.R12', "a configured transform reaches the images it was configured for, and its result is what leaves: Util.process runs the transform block when transforms are configured; a transform without topics joins "
                 "the chain of every topic, one with topics the chains of those topics; execute_xforms stores the frame it ends up with in the record it returns")
def r12(rr, repo):
    mod, proc = repo.find(f'{UT}::Util.process')
    _, exe = repo.find(f'{UT}::Util.execute_xforms')
    maps = [n for n in walk_scope(proc) if isinstance(n, ast.Assign) and isinstance(n.value, ast.Call) and 'execute_xforms' in U(n.value)]
    rr.floor('executions of the chains', len(maps), 1, mod, proc)
    for n in maps:
        g = q.effective_guards(n, proc)
        ok = any(p and 'self.xforms' in t for t, p in g) and not any((not p) and 'self.xforms' in t for t, p in g)
        rr.ob('the chains are executed when transforms are configured', ok, mod, n, witness=str(g)[:120], key='xforms-run-when-configured')
    apps = [c for c in q.calls_in(proc) if isinstance(c.func, ast.Attribute) and c.func.attr == 'append' and U(c.func.value).endswith('.xforms')]
    rr.floor('places a transform joins a chain', len(apps), 2, mod, proc)
    kinds = set()
    for c in apps:
        g = q.effective_guards(c, proc)
        alln = [(t, p) for t, p in g if 'xform.topics' in t.replace('xform_topics := ', '') and 'is None' in t]
        if len(alln) != 1:
            rr.unresolved('how a transform is assigned to the topic chains was not recognised', mod, c, witness=str(g)[:160], key='xform-assignment')
            continue
        to_all = alln[0][1]
        from ..model import ancestors as _anc
        loops = [a for a in _anc(c) if isinstance(a, ast.For) and a is not None]
        over = U(loops[0].iter) if loops else ''
        if to_all:
            ok = over.endswith('topic_xforms.values()')
            rr.ob('a transform without topics joins the chain of EVERY topic that has an image', ok, mod, c, witness=f'loop over {over}', key='xform-to-all')
            kinds.add('all')
        else:
            ok = any(p and 'topic_xforms.get(topic)' in t for t, p in g) and any((not p) and 'topic not in frames' in t for t, p in g)
            rr.ob('a transform with topics joins the chains of exactly those topics (that arrived, with an image)', ok, mod, c, witness=str(g)[:200], key='xform-to-named')
            kinds.add('named')
    rr.ob('both kinds of transform are assigned', kinds == {'all', 'named'}, mod, proc, witness=str(sorted(kinds)), key='xform-assignment-kinds')
    # execute_xforms: the frame variable the chain loop rebinds is stored back after the loop, and the record is returned
    loops = [n for n in exe.body if isinstance(n, ast.For) and U(n.iter).endswith('.xforms')]
    rec = q.func_params(exe)[1] if len(q.func_params(exe)) > 1 else 'topic_xform'
    if len(loops) == 1:
        after = [s_ for s_ in exe.body if s_.lineno > loops[0].end_lineno]
        stored = [s_ for s_ in after if isinstance(s_, ast.Assign) and U(s_.targets[0]) == f'{rec}.frame' and U(s_.value) == 'frame']
        ret = [s_ for s_ in after if isinstance(s_, ast.Return) and U(s_.value) == rec]
        rr.ob('execute_xforms puts the transformed frame into the record and returns the record', bool(stored) and bool(ret) and stored[0].lineno < ret[0].lineno, mod, exe,
              witness=f'stored: {bool(stored)}, returned: {bool(ret)}', key='chain-result-stored')
    else:
        rr.unresolved('execute_xforms: the chain loop was not recognised', mod, exe, key='chain-result-stored')


@rule('C17.R13', "a box is drawn in the colour that was asked for: '#rgb' stands for '#rrggbb' with every digit doubled, '#rrggbb' is three bytes - decided by evaluating the configuration's own colour "
                 "expression on colours of both lengths, among them six-digit colours with leading zero bytes (which a parse by numeric VALUE instead of by the number of digits written takes for "
                 "the short form: '#000080' would become '#080')")
def r13(rr, repo):
    from ..peval import PEval, Lit, Lst, Undecided, Raised
    mod, nc = repo.find(f'{UT}::Util.normalize_config')
    unpack = [n for n in ast.walk(nc) if isinstance(n, ast.Assign) and isinstance(n.targets[0], ast.Tuple) and isinstance(n.value, ast.Call) and U(n.value.func).endswith('.groups') and len(n.targets[0].elts) == 5]
    if not unpack:
        raise Unresolved(f'{UT}: the box arguments are no longer unpacked from a five-group match')
    cname = U(unpack[0].targets[0].elts[4])
    stores = [n for n in ast.walk(nc) if isinstance(n, ast.Assign) and any(U(t).endswith('.color') for t in n.targets) and any(isinstance(x, ast.Name) and x.id == cname for x in ast.walk(n.value))]
    rr.floor('stores of the box colour parsed from the configuration text', len(stores), 1, mod, nc)
    def want(c):
        return tuple(int(ch * 2, 16) for ch in c) if len(c) == 3 else (int(c[:2], 16), int(c[2:4], 16), int(c[4:], 16))
    for st in stores:
        for c in ('f00', '246', '080', 'fff', '000', 'fdb975', '000080', '000fff', '00000a', '001000', '0a0b0c', 'ffffff', '000000', '100000'):
            try:
                v = PEval({cname: Lit(c)}).ev(st.value)
            except (Undecided, Raised) as exc:
                rr.unresolved(f"the colour expression could not be evaluated for '#{c}'", mod, st, witness=str(exc)[:100], key=f'box-colour|{c}')
                continue
            got = tuple(x.v for x in v.items) if isinstance(v, Lst) and all(isinstance(x, Lit) for x in v.items) else None
            rr.ob(f"'#{c}' is the colour {want(c)}", got == want(c), mod, st, witness=f'-> {v!r}', key=f'box-colour|{c}')
