"""Rule registry: property id -> [(rule id, one-sentence rule, function(rr, repo))]."""

REGISTRY: dict[str, list] = {}


def rule(rid: str, text: str):
    pid = rid.split('.')[0]

    def deco(fn):
        REGISTRY.setdefault(pid, []).append((rid, text, fn))
        return fn
    return deco


def load_all():
    from . import c01, c02, c03, c04, c05, c06, c07, c08, c09, c10, c12, c13, c14, c15, c16, c17, c18  # noqa: F401
    return REGISTRY
