"""C07 - load balancing: one branch per frame, ordered duplicate-free rejoin (necessary structural conditions)."""

from __future__ import annotations

import ast
import re

from . import rule
from .zmq import anchors, Z, ret_const, stmt_list_containing
from .c01 import sync_region
from .c02 import data_publishes
from .c03 import _is_hello
from .c04 import recv_loop_paths
from ..model import Unresolved, walk_scope, parent, enclosing_function, qualname
from ..paths import U, Path, Evaluator
from .. import q


@rule('C07.R1', 'one branch per frame: a balanced publish goes out on exactly one PUB socket, chosen among outputs whose clients all asked; otherwise on all')
def r1(rr, repo):
    za = anchors(repo)
    nb = nu = 0
    for p in za.paths('maybe'):
        pubs = data_publishes(p)
        if not pubs:
            continue
        bal = p.facts.get('truthy(self.balance)')
        for e in pubs:
            m = re.match(r'__elem__\((.*)\)\.send_multipart$', e.term, re.S)
            if not m:
                rr.unresolved('data publish not inside a loop over sockets', za.mod, e.node, witness=e.term[:120], key='pub-shape')
                continue
            it = m.group(1)
            if bal is True:
                nb += 1
                try:
                    node = ast.parse(it, mode='eval').body
                except SyntaxError:
                    node = None
                one = isinstance(node, ast.List) and len(node.elts) == 1 and not isinstance(node.elts[0], ast.Starred)
                rr.ob('balanced: the data message is published on a one-element socket list', one, za.mod, e.node, witness=it[:200], key='bal-one-pub')
                if one:
                    sel = U(node.elts[0])
                    ok = sel.startswith('self.pubs[self.pulls.index(') and 'min(' in sel
                    rr.ob('balanced: that socket is the PUB paired with the chosen PULL (self.pubs[self.pulls.index(out_pull)])', ok, za.mod, e.node, witness=sel[:200], key='bal-pub-paired')
                    comp = [n for n in ast.walk(node) if isinstance(n, ast.ListComp)]
                    def conj(i):
                        return {U(v) for v in i.values} if isinstance(i, ast.BoolOp) and isinstance(i.op, ast.And) else {U(i)}
                    okc = any({'out_do_send', 'out_nrequested'} <= set().union(*[conj(i) for g in c.generators for i in g.ifs], set()) for c in comp)
                    rr.ob('balanced: candidates are outputs that are ready and have a requesting client (out_do_send and out_nrequested)', okc, za.mod, e.node, key='bal-candidates')
            elif bal is False:
                nu += 1
                rr.ob('unbalanced: the data message is published on every socket (self.pubs)', it == 'self.pubs', za.mod, e.node, witness=it[:120], key='unbal-all-pubs')
    rr.floor('balanced data publishes', nb, 1, za.mod, za.S_maybe)
    rr.floor('unbalanced data publishes', nu, 1, za.mod, za.S_maybe)


@rule('C07.R2', 'a balanced receiver reads one source at a time: after a data message the other sources leave the poller and already-polled events are dropped; no cross-source reset under balance')
def r2(rr, repo):
    za = anchors(repo)
    call, lst, _, _ = sync_region(za)
    ev = za.ev()
    ps = ev.run(lst, za.start(za.R_once))
    rr.paths += len(ps)
    n = 0
    topic = None
    for c in q.attr_calls(za.R_pm, 'new_recv') + q.attr_calls(za.R_pm, 'init_recvd'):
        if len(c.args) >= 2 and isinstance(c.args[1], ast.Name):
            topic = c.args[1].id
    for p in ps:
        bal = p.facts.get('truthy(self.balance)')
        if bal is not True or p.outcome is not None:
            continue
        resets = [e for e in p.events if e.kind == 'call' and e.term.endswith('.new_recv') and '__elem__' in e.term]
        rr.ob('balanced: a newer id from one source does not reset the others (they carry other frames)', not resets, za.mod, resets[0].node if resets else call, witness=p.pc_text(), key='bal-no-reset')
        tp = p.facts.get(f'truthy({topic})')
        if tp is not False:
            # a path on which the topic was never tested covers data messages too: the lock must not depend on anything
            # but "this is a data message" (a set that is already complete is exactly the single-topic frame a balanced
            # stream carries; skipping the lock for it lets the same call adopt a second frame from another source)
            n += 1
            drop = [e for e in p.events if e.kind == 'bind' and e.term == 'socks' and e.args[0] == 'None']
            rr.ob('balanced: events already polled from other sources are dropped (socks = None) after every data message, whatever else holds', bool(drop) and tp is True, za.mod, call, witness=p.pc_text(), key='bal-drop-polled')
            visit = [e for e in p.events if e.kind == 'for' and 'sender' in e.term]
            rr.ob('balanced: the other sources are visited (to leave the poller) after every data message, whatever else holds', bool(visit), za.mod, call, witness=p.pc_text(), key='bal-visit-others')
            other = [v for kk, v in p.facts.items() if kk.startswith('is(') and '__elem__' in kk]
            inp = [v for kk, v in p.facts.items() if kk.startswith('in(') and kk.endswith(', self.poller)')]
            if other and other[-1] is False and inp and inp[-1] is True:
                un = [e for e in p.events if e.kind == 'call' and e.term.endswith('.unregister')]
                rr.ob('balanced: every other registered source is unregistered after a data message', bool(un), za.mod, call, witness=p.pc_text(), key='bal-unregister-others')
    rr.floor('balanced data-message paths', n, 1, za.mod, call)


@rule('C07.R3', 'the first hop after a split never prefetches, and the balanced mark travels (and is incremented) in the envelope')
def r3(rr, repo):
    za = anchors(repo)
    loop, paths = recv_loop_paths(za)
    n = 0
    for p in paths:
        if p.facts.get('truthy(got_all)') is not True:
            continue
        rq = [e for e in p.events if e.kind == 'call' and e.term in (za.R_req.name, f'<def {za.R_req.name}>')]
        if rq:
            n += 1
            pc = p.pc[:rq[0].pc_len]
            ll = [v for kk, v in pc if kk == 'truthy(self.low_latency)']
            b1 = [v for kk, v in pc if kk in ('eq(1, balanced)', 'eq(balanced, 1)')] + [v == '=' for kk, v in pc if kk in ('ord(1, balanced)', 'ord(balanced, 1)')]
            rr.ob('prefetch only when not low-latency', bool(ll) and ll[-1] is False, za.mod, rq[0].node, witness=p.pc_text(rq[0].pc_len), key='prefetch-lowlat')
            rr.ob('prefetch only when the set did not come straight from a balancing split (balanced != 1)', bool(b1) and b1[-1] is False, za.mod, rq[0].node, witness=p.pc_text(rq[0].pc_len), key='prefetch-bal1')
            rr.ob('the prefetch asks for the id after the one being returned (request(min_recv_id))', rq[0].args and rq[0].args[0] == 'min_recv_id', za.mod, rq[0].node, witness=str(rq[0].args), key='prefetch-id')
    rr.floor('prefetching paths', n, 1, za.mod, loop)
    k = 0
    for p in za.paths('maybe'):
        if not data_publishes(p) and not [e for e in p.events if e.kind == 'store' and e.term == 'self.min_send_id']:
            continue
        bal = p.facts.get('truthy(self.balance)')
        bald = p.facts.get('truthy(balanced)')
        st = [e for e in p.events if e.kind == 'store' and re.search(r"\['bal'\]$", e.term)]
        if bal is True or bald is True:
            k += 1
            ok = bool(st) and st[-1].args[0].replace(' ', '') in ('self.balanceorbalanced+1',)
            rr.ob("a publish under balancing (own or inherited) marks the envelope: env['bal'] = balance or balanced + 1", ok, za.mod, st[-1].node if st else za.S_maybe, witness=st[-1].args[0] if st else p.pc_text(), key='env-bal')
        elif bal is False and bald is False:
            rr.ob('no balanced mark without balancing', not st, za.mod, st[0].node if st else za.S_maybe, key='env-nobal')
    rr.floor('publishes under balancing', k, 1, za.mod, za.S_maybe)
    # the receiver hands the mark on: ZMQStateSend(min_recv_id, balanced)
    rets = [n_ for n_ in walk_scope(za.R_recv) if isinstance(n_, ast.Return) and isinstance(n_.value, ast.Tuple) and len(n_.value.elts) == 2]
    for r in rets:
        st = r.value.elts[1]
        rr.ob('recv() hands the balanced mark to the coupled sender (ZMQStateSend(id, balanced))', isinstance(st, ast.Call) and len(st.args) >= 2 and U(st.args[1]) == 'balanced', za.mod, r, key='state-bal')


@rule('C07.R4', 'older ids are discarded at the rejoin (shares C02.R1 / C02.R2)')
def r4(rr, repo):
    from .c02 import r1 as c02r1, r2 as c02r2
    c02r1(rr, repo)
    c02r2(rr, repo)


@rule('C07.R5', 'under balance a scheduled HELLO is always sent to every output, because the data message reaches only one')
def r5(rr, repo):
    za = anchors(repo)
    n = 0
    for p in za.paths('maybe'):
        if p.facts.get('truthy(do_hello)') is True and p.facts.get('truthy(self.balance)') is True:
            n += 1
            hello = [e for e in p.events if e.kind == 'call' and e.term.endswith('.send_multipart') and e.value.args and _is_hello(e.value.args[0])]
            zero = any(e.kind == 'for' and e.term == 'self.pubs' and e.args[0] == 'zero' for e in p.events)
            if zero:
                continue
            rr.ob('balanced: HELLO goes out on self.pubs whatever else is sent', bool(hello) and all(e.term == '__elem__(self.pubs).send_multipart' for e in hello), za.mod, za.S_maybe, witness=p.pc_text()[:300], key='hello-balanced')
    rr.floor('balanced paths with a scheduled HELLO', n, 1, za.mod, za.S_maybe)


@rule('C07.R6', 'the rejoined stream never mixes ids: the receiver-side invariants C01.R8 (fresh per-id sets) and C01.R9 (the adopted id survives a timed-out call)')
def r6(rr, repo):
    from .c01 import r8 as c01r8, r9 as c01r9
    c01r8(rr, repo)
    c01r9(rr, repo)


@rule('C07.R7', 'a frame overtaken at the rejoin is dropped, not re-sent under a new id: MQ.send() asks for a retry only after a timeout and uses up the id handed over by recv() (shares C02.R7)')
def r7(rr, repo):
    from .c02 import r7 as c02r7
    c02r7(rr, repo)


@rule('C07.R8', 'a balanced join delivers the frame of ONE branch as soon as it is complete: branches with nothing yet do not hold it back, a partial branch does (shares C01.R6, both directions)')
def r8(rr, repo):
    from .c01 import r6 as c01r6
    c01r6(rr, repo)


@rule('C07.R9', "a frame that was overtaken is never relabelled: when a downstream request shows that the id being sent is already behind, the publisher discards the frame and moves its counter on - publishing it "
                "under the newer id (the one thing the join's 'discard older' test cannot see) puts an old frame behind a newer one in the rejoined stream (shares C02.R3)")
def r9(rr, repo):
    from .c02 import r3 as c02r3
    c02r3(rr, repo)


@rule('C07.R10', "the lock of a balanced join goes with the half set it belongs to: the other workers come back into the poller exactly where that half set is dropped. Released while the half set is kept "
                 "(a call that times out), another worker's newer set is started next to the stale half; what is handed out then mixes ids, or raises 'duplicate topic' (shares C06.R18)")
def r10(rr, repo):
    from .c06 import r18 as c06r18
    c06r18(rr, repo)


@rule('C07.R11', "a frame goes to one branch once: send() answers 'not sent' (None) only when the time ran out WITHOUT a publish - a send whose attempt succeeded but outlasted its timeout reports success. "
                 "Told 'not sent' after the frame went out, the caller's retry loop publishes the same frame again under the next id, and the rejoined stream carries it twice (shares C04.R9)")
def r11(rr, repo):
    from .c04 import r9 as c04r9
    c04r9(rr, repo)
