"""C08 - lifecycle contract: exception-structure evaluation of Filter.run for every (site x kind x policy) scenario,
policy bit tables, exit() always raises, stop-event polling, no call of a module, teardown pairing."""

from __future__ import annotations

import ast
import re
from functools import lru_cache

from . import rule
from ..model import Unresolved, walk_scope, parent, enclosing_function, qualname, Repo
from ..paths import U, Path, Evaluator, Exc, Event
from .. import q

FILTER = 'openfilter/filter_runtime/filter.py'
MQF = 'openfilter/filter_runtime/mq.py'
Z = 'openfilter/filter_runtime/zeromq.py'

SITES = ['ctor', 'init', 'setup', 'loop_once', 'loop_once#2', 'shutdown', 'send_exit_msg', 'fini', 'stop_logging']
KINDS = [None, 'Exception', 'Exit', 'PropagateError', 'KeyboardInterrupt']
PROPS = ['none', 'clean', 'error', 'all']

SITE_TERM = {'ctor': 'cls', 'init': 'filter.init', 'setup': 'filter.setup', 'loop_once': 'filter.loop_once', 'shutdown': 'filter.shutdown',
             'send_exit_msg': 'filter.mq.send_exit_msg', 'fini': 'filter.fini', 'stop_logging': 'filter.stop_logging'}


class RunModel:
    def __init__(self, repo: Repo):
        self.repo = repo
        self.mod, self.run = repo.find(f'{FILTER}::Filter.run')
        self.fini = repo.find(f'{FILTER}::Filter.fini')[1]
        self.exit = repo.find(f'{FILTER}::Filter.exit')[1]
        self.consts = q.module_consts(self.mod)
        flags = self.consts.get('PROP_EXIT_FLAGS')
        if not isinstance(flags, dict):
            raise Unresolved(f'{FILTER}: PROP_EXIT_FLAGS does not fold to a dict literal')
        self.flags = flags
        self.kref = {
            'Exception': ('builtin', 'Exception'),
            'KeyboardInterrupt': ('builtin', 'KeyboardInterrupt'),
            'Exit': ('repo', f'{FILTER}::Filter.Exit'),
            'PropagateError': ('repo', f'{FILTER}::Filter.PropagateError'),
        }
        for k in ('Exit', 'PropagateError'):
            if self.kref[k][1] not in repo.classes():
                raise Unresolved(f'{FILTER}: class Filter.{k} not found')
        self.npaths = 0
        q.expect_locals(self.mod, self.run, ['filter', 'stop_evt', 'prop_exit', 'loop_exc', 'is_exc', 'config', 'sig_stop', 'obey_exit', 'cls'])
        q.expect_locals(self.mod, self.exit, ['self', 'reason', 'exc'])
        q.expect_locals(self.mod, self.run, ['filter', 'stop_evt', 'prop_exit', 'loop_exc', 'is_exc', 'config', 'sig_stop', 'obey_exit', 'cls'])
        q.expect_locals(self.mod, self.exit, ['self', 'reason', 'exc'])

    def scenario(self, site: str | None, kind: str | None, prop: str, loop_yes: bool, via_exit: bool = False, emitter: bool = True,
                 start_emitted_in_init: bool = True, second: tuple | None = None) -> list[Path]:
        """Evaluate Filter.run with a fault of `kind` injected at `site` (n-th occurrence for 'x#n')."""
        nth = 1
        base = site
        if site and '#' in site:
            base, n = site.split('#')
            nth = int(n)
        mod = self.mod
        model = self

        synth_exit = None
        if via_exit and site is not None:
            arg = ", Filter.PropagateError" if kind == 'PropagateError' else ''
            synth_exit = ast.parse(f"def __site__(self):\n    self.exit('injected'{arg})\n").body[0]

        def oracle(call, rc, path, ev):
            if site is None or kind is None or via_exit:
                return None
            if ev.term == SITE_TERM[base] and path.depth == 0:
                c = path.counters.get('site', 0) + 1
                path.counters['site'] = c
                if c == nth:
                    return [Exc(model.kref[kind], kind, call)]
            if second is not None and ev.term == SITE_TERM[second[0]] and path.depth == 0 and path.counters.get('site', 0) >= nth:
                c2 = path.counters.get('site2', 0) + 1      # a second, later fault (an exception in shutdown() of a run that is already ending by an exit)
                path.counters['site2'] = c2
                if c2 == 1:
                    return [Exc(model.kref[second[1]], second[1], call)]
            return None

        def inline(call, rc, path):
            term = U(rc.func)
            if path.depth == 0 and synth_exit is not None and term == SITE_TERM[base]:
                c = path.counters.get('isite', 0) + 1
                path.counters['isite'] = c
                if c == nth:
                    return (mod, synth_exit, ast.Name(id='filter', ctx=ast.Load()))
            if term == 'filter.fini':
                return (mod, model.fini, rc.func.value)
            if term.endswith('.exit') and term in ('filter.exit', 'self.exit'):
                return (mod, model.exit, rc.func.value)
            return None

        ev = Evaluator(self.repo, mod, consts={k: v for k, v in self.consts.items() if not isinstance(v, dict)}, unroll_while=2,
                       call_oracle=oracle, inline=inline, max_depth=3)
        ev.explore_handlers = False      # faults are injected by the oracle, one site at a time
        ev.keep_names_for_calls = True
        ev.simplify = True
        ev.classes_truthy = True
        ev.const_tables = {'PROP_EXIT_FLAGS': self.flags}
        ev.scope_node = self.run
        start = Path()
        start.env['prop_exit'] = ast.Constant(prop)
        start.env['loop_exc'] = ast.Constant(loop_yes)
        start.env['sig_stop'] = ast.Constant(False)
        for k, v in (('isnone(config)', False), ('isnone(stop_evt)', False), ("in('__env_run', config)", False),
                     ("truthy(hasattr(filter, 'emitter'))", emitter), ('isnone(filter.emitter)', not emitter),
                     ("truthy(hasattr(self, 'emitter'))", emitter), ('isnone(self.emitter)', not emitter),
                     ('isnone(filter)', False)):
            start.facts[k] = v
        paths = ev.run(self.run.body, start)
        self.npaths += len(paths)
        return paths


def model(repo) -> RunModel:
    m = getattr(repo, '_runmodel', None)
    if m is None:
        m = repo._runmodel = RunModel(repo)
    return m


def trace(p: Path) -> list[str]:
    """Lifecycle / lineage alphabet of a path."""
    out = []
    for e in p.events:
        if e.kind != 'call':
            continue
        t = e.term
        if t in ('cls', 'filter.init', 'filter.setup', 'filter.loop_once', 'filter.shutdown', 'filter.stop_logging', 'stop_evt.set'):
            out.append(t.split('.')[-1] if t != 'stop_evt.set' else 'stop_evt.set')
        elif t == 'filter.mq.send_exit_msg':
            out.append(f'send_exit_msg({e.args[0] if e.args else ""})')
        elif t == 'filter.fini':
            out.append('fini')
        elif t.endswith('.mq.destroy'):
            out.append('mq.destroy')
        elif t.endswith('.emitter.emit_stop'):
            out.append('ABORT')
        elif t.endswith('.emitter.emit_complete'):
            out.append('COMPLETE')
        elif t.endswith('.emitter.emit_start'):
            out.append('START')
        elif t.endswith('.emitter.stop_lineage_heart_beat'):
            out.append('hb_stop')
        elif t.endswith('.emitter.start_lineage_heart_beat'):
            out.append('hb_start')
        elif t.endswith('.stop_evt.set'):
            out.append('exit:stop_evt.set')
    return out


def site_returned(p: Path, site: str, fault_site, fault_kind, nth_fault=1) -> bool:
    """Did the given lifecycle call return normally on this path?"""
    term = SITE_TERM[site]
    calls = [e for e in p.events if e.kind == 'call' and e.term == term and e.depth == 0]
    if not calls:
        return False
    if fault_site is None or fault_kind is None:
        return True
    base = fault_site.split('#')[0]
    if base != site:
        return True
    n = int(fault_site.split('#')[1]) if '#' in fault_site else 1
    # the n-th call of the site raised
    if site == 'loop_once':
        return False if len(calls) >= n else True
    return not (len(calls) >= n)


def loop_iterations_selector(p: Path, want: str) -> bool:
    """Select paths by the stop-event history of the main loop: 'never' (stop set before the first iteration),
    'once' (one iteration then stop), 'more'."""
    seq = [v for k, v in p.pc if k == 'truthy(stop_evt.is_set())']
    if want == 'never':
        return seq[:1] == [True]
    return True


def scenario_label(site, kind, prop, loop_yes, via_exit):
    return f'{kind or "no-fault"}{"(exit())" if via_exit else ""}@{site or "-"} prop_exit={prop} loop_exc={"Yes" if loop_yes else "Exception"}'


def expected_outcome(site, kind, loop_yes):
    """'return' | 'raise' | None (not judged) - the table the lifecycle contract states."""
    if kind is None:
        return 'return'
    base = site.split('#')[0]
    if kind == 'Exception':
        if base == 'loop_once' and not loop_yes:
            return None      # LOOP_EXC=false asks for loop errors to be swallowed; structural clauses only
        return 'raise'
    if kind == 'Exit':
        return 'return' if base in ('init', 'setup', 'loop_once', 'shutdown', 'send_exit_msg', 'fini') else None
    if kind == 'PropagateError':     # the control-flow exception of an obeyed error exit: LOOP_EXC=false (log loop errors and carry on) does not apply to it
        return 'return' if base in ('setup', 'loop_once', 'shutdown') else None
    return None


def all_scenarios():
    for site in [None] + SITES:
        for kind in KINDS:
            if (site is None) != (kind is None):
                continue
            for prop in PROPS:
                for loop_yes in (True, False):
                    yield site, kind, prop, loop_yes


@rule('C08.R1', 'exception-structure table of Filter.run: for every (site x exception kind x policy) scenario shutdown runs once iff setup returned, '
                'fini once iff init returned, stop_logging iff constructed, stop_evt.set() last, exit message sent iff the policy bit matches the kind in flight, '
                'and run() returns for clean exits / raises for errors')
def r1(rr, repo):
    m = model(repo)
    mod, run = m.mod, m.run
    n_scen = 0
    FL = m.flags
    for site, kind, prop, loop_yes in all_scenarios():
        if site == 'send_exit_msg' and not (FL[prop] & FL['clean']):
            n_scen += 1
            continue   # the policy sends no message on a clean end, so this fault site does not exist in the scenario
        paths = m.scenario(site, kind, prop, loop_yes)
        n_scen += 1
        label = scenario_label(site, kind, prop, loop_yes, False)
        if not paths:
            rr.unresolved(f'scenario {label}: no path', mod, run, key=f'nopath|{label}')
            continue
        base = site.split('#')[0] if site else None
        reached = False
        for p in paths:
            tr = trace(p)
            # was the fault site reached on this path (e.g. loop never entered because stop_evt was already set)?
            fault_hit = kind is None or any(e.kind == 'raise' and e.raw.startswith(f'<{kind} raised by') for e in p.events)
            if kind is not None and not fault_hit:
                continue
            if p.outcome is not None and p.outcome[0] == 'loopcut':
                continue   # unrolling bound reached: not a complete run
            if any('exit_exc' in k and ((k.startswith('isnone(') and v is False) or (k.startswith(('is(', 'eq(')) and v is True)) for k, v in p.pc):
                continue   # the injected fault is an error of the loop body, not what exit(reason, exc) raised (nothing called exit() in this scenario): the handler's test for that is false here
            reached = True
            w = f'{label}: {" ".join(tr)} => {p.outcome_text()}'
            ctor_ok = site != 'ctor' or kind is None
            init_ok = ctor_ok and not (base == 'init' and kind is not None) and 'init' in tr
            setup_ok = init_ok and not (base == 'setup' and kind is not None) and 'setup' in tr
            # a
            nshut = tr.count('shutdown')
            rr.ob('shutdown() runs exactly once iff setup() completed, else not at all', nshut == (1 if setup_ok else 0), mod, run, witness=w,
                  key=f'shutdown-count|setup_ok={setup_ok}|n={nshut}')
            # b
            nfini = tr.count('mq.destroy')
            if not (base == 'fini' and kind is not None):
              rr.ob('communication is torn down (fini -> mq.destroy) exactly once iff init() completed', nfini == (1 if init_ok else 0), mod, run, witness=w,
                  key=f'fini-count|init_ok={init_ok}|n={nfini}')
            # c
            nlog = tr.count('stop_logging')
            rr.ob('stop_logging runs iff the filter was constructed', nlog == (1 if ctor_ok else 0), mod, run, witness=w, key=f'stoplog|ctor_ok={ctor_ok}|n={nlog}')
            rr.ob('the stop event is set on every exit of run(), as the last lifecycle action', bool(tr) and tr[-1] == 'stop_evt.set', mod, run, witness=w, key='stop_evt-last')
            # d
            sent = [t for t in tr if t.startswith('send_exit_msg(')]
            inflight = kind if (kind is not None and base in ('setup', 'loop_once', 'shutdown') and not (base == 'loop_once' and not loop_yes and kind == 'Exception')) else None
            is_exc = inflight in ('Exception', 'PropagateError', 'KeyboardInterrupt')      # whatever makes run() raise is an error end for the neighbours too (KeyboardInterrupt, a sys.exit() of user code): only Filter.Exit is a clean one
            bit = FL['error'] if is_exc else FL['clean']
            want = init_ok and bool(FL[prop] & bit) and not (base in ('send_exit_msg',) and False)
            if base == 'send_exit_msg' and kind is not None:
                want = bool(FL[prop] & FL['clean'])   # the call is attempted (and is the one that faults)
            if init_ok and setup_ok or (init_ok and base == 'setup'):
                rr.ob("an exit message is sent iff the propagate policy has the bit for the kind of exit in flight ('error' for whatever run() is going to raise, else 'clean')",
                      (len(sent) == 1) == want and (not sent or sent[0] == f"send_exit_msg('{'error' if is_exc else 'clean'}')"), mod, run, witness=w,
                      key=f'exitmsg|inflight={inflight}|prop={prop}|sent={sent}')
            elif not init_ok:
                rr.ob('no exit message without communication (init did not complete)', not sent, mod, run, witness=w, key='exitmsg-noinit')
            if sent and 'fini' in tr:
                rr.ob('the exit message goes out before communication is torn down', tr.index(sent[0]) < tr.index('fini'), mod, run, witness=w, key='exitmsg-before-fini')
            # e
            exp = expected_outcome(site, kind, loop_yes) if site else 'return'
            if exp is not None:
                got = 'return' if (p.outcome is None or p.outcome[0] == 'return') else 'raise' if p.outcome[0] == 'raise' else p.outcome[0]
                rr.ob(f'run() {"returns normally" if exp == "return" else "raises"} for this kind of end', got == exp, mod, run, witness=w, key=f'outcome|{kind}@{base}|loop_yes={loop_yes}|got={got}')
        if not reached:
            rr.unresolved(f'scenario {label}: the fault site was not reached on any complete path', mod, run, key=f'unreached|{label}')
    # second faults: a fault in shutdown while another exception is in flight must still tear down
    rr.paths += m.npaths
    rr.floor('scenarios of Filter.run evaluated', n_scen, 8 * 4 * 4 * 2 + 8, mod, run)
    rr.samples = [{'scenario': scenario_label('loop_once', 'Exception', 'all', True, False),
                   'trace': trace(m.scenario('loop_once', 'Exception', 'all', True)[0])}]


@rule('C08.R1b', 'a fault inside shutdown() during a clean exit turns the run into an error run: neighbours are told "error" and run() raises; exit() from each stage ends the run cleanly')
def r1b(rr, repo):
    m = model(repo)
    mod, run = m.mod, m.run
    for p in m.scenario('shutdown', 'Exception', 'all', True):
        if p.outcome is not None and p.outcome[0] == 'loopcut':
            continue
        tr = trace(p)
        w = ' '.join(tr) + ' => ' + p.outcome_text()
        rr.ob("fault in shutdown(): the exit message says 'error'", "send_exit_msg('error')" in tr, mod, run, witness=w, key='shutdown-fault-msg')
        rr.ob('fault in shutdown(): run() raises', p.outcome is not None and p.outcome[0] == 'raise', mod, run, witness=w, key='shutdown-fault-raises')
    # ... also when the run was already on its way out: a clean exit travels as an exception as well (Filter.Exit from exit() / the deadline / an obeyed exit message, PropagateError for an
    # obeyed error exit), so "an exception is in flight" must not be taken for "the run has already failed" - a shutdown() that raises is an error whatever ended the loop
    k2 = 0
    for site, kind in (('loop_once', 'Exit'), ('loop_once#2', 'Exit'), ('loop_once', 'PropagateError')):
        for prop in ('all', 'clean'):
            for p in m.scenario(site, kind, prop, True, second=('shutdown', 'Exception')):
                if p.outcome is not None and p.outcome[0] == 'loopcut':
                    continue
                if not any(e.kind == 'raise' and e.raw.startswith('<Exception raised by') for e in p.events):
                    continue
                k2 += 1
                tr = trace(p)
                w = f'{kind}@{site} then Exception@shutdown, prop_exit={prop}: ' + ' '.join(tr) + ' => ' + p.outcome_text()
                rr.ob('fault in shutdown() of a run that is ending by an exit: run() raises', p.outcome is not None and p.outcome[0] == 'raise', mod, run, witness=w, key=f'shutdown-fault-after-exit-raises|{kind}')
                if prop == 'all':
                    rr.ob("fault in shutdown() of a run that is ending by an exit: the exit message says 'error'", "send_exit_msg('error')" in tr and "send_exit_msg('clean')" not in tr, mod, run, witness=w,
                          key=f'shutdown-fault-after-exit-msg|{kind}')
                elif kind == 'Exit':
                    rr.ob("fault in shutdown() of a run that is ending by a clean exit, prop_exit='clean': nothing is announced", not [t for t in tr if t.startswith('send_exit_msg(')], mod, run, witness=w,
                          key=f'shutdown-fault-after-exit-silent|{kind}')
    rr.floor('shutdown-fault-after-exit scenarios reached', k2, 4, mod, run)
    # ... and the converse: exit() called from shutdown() (allowed, and a clean end of a clean run) while an ERROR is on its way out does not turn the run into a clean one - the Filter.Exit it
    # raises would replace the exception in flight, run() would return normally and the neighbours would be told 'clean'
    k3 = 0
    for site, kind in (('loop_once', 'Exception'), ('loop_once#2', 'Exception'), ('loop_once', 'KeyboardInterrupt'), ('loop_once', 'PropagateError')):
        for p in m.scenario(site, kind, 'all', True, second=('shutdown', 'Exit')):
            if p.outcome is not None and p.outcome[0] == 'loopcut':
                continue
            if not any(e.kind == 'raise' and e.raw.startswith('<Exit raised by') for e in p.events):
                continue
            k3 += 1
            tr = trace(p)
            w = f'{kind}@{site} then exit() in shutdown(), prop_exit=all: ' + ' '.join(tr) + ' => ' + p.outcome_text()
            if kind == 'PropagateError':      # an obeyed error exit: eaten by run() by design, but announced as an error
                rr.ob("exit() in shutdown() of a run that is ending by an obeyed error exit: the neighbours are still told 'error'", "send_exit_msg('error')" in tr and "send_exit_msg('clean')" not in tr, mod, run, witness=w,
                      key='exit-in-shutdown-after-error-msg|PropagateError')
                continue
            rr.ob('exit() in shutdown() of a run that is ending by an error: run() still raises', p.outcome is not None and p.outcome[0] == 'raise' and 'Exit' not in p.outcome_text(), mod, run, witness=w,
                  key=f'exit-in-shutdown-after-error-raises|{kind}')
            rr.ob("exit() in shutdown() of a run that is ending by an error: the exit message says 'error'", "send_exit_msg('error')" in tr and "send_exit_msg('clean')" not in tr, mod, run, witness=w,
                  key=f'exit-in-shutdown-after-error-msg|{kind}')
    rr.floor('exit-in-shutdown-after-error scenarios reached', k3, 3, mod, run)
    n = 0
    for site in ('setup', 'loop_once', 'loop_once#2', 'shutdown'):
        for kind in ('Exit', 'PropagateError'):
            for p in m.scenario(site, kind, 'all', True, via_exit=True):
                if p.outcome is not None and p.outcome[0] == 'loopcut':
                    continue
                if not any(e.kind == 'call' and e.term in ('filter.exit', 'self.exit') for e in p.events):
                    continue
                n += 1
                tr = trace(p)
                w = f'exit({kind}) from {site}: ' + ' '.join(tr) + ' => ' + p.outcome_text()
                rr.ob('exit() called from a lifecycle stage ends run() by returning normally', p.outcome is None or p.outcome[0] == 'return', mod, run, witness=w, key=f'exit-returns|{kind}@{site.split("#")[0]}')
                base = site.split('#')[0]
                rr.ob('exit(): shutdown still runs exactly once (setup had completed)' if base != 'setup' else 'exit() in setup(): shutdown does not run',
                      tr.count('shutdown') == (0 if base == 'setup' else 1), mod, run, witness=w, key=f'exit-shutdown|{base}')
                rr.ob('exit(): communication is torn down once and the stop event ends up set', tr.count('mq.destroy') == 1 and tr[-1] == 'stop_evt.set', mod, run, witness=w, key='exit-teardown')
                want = "send_exit_msg('error')" if kind == 'PropagateError' else "send_exit_msg('clean')"
                rr.ob('exit(): neighbours are told the matching kind of exit', want in tr, mod, run, witness=w, key=f'exit-msg|{kind}')
    rr.floor('exit()-from-stage scenarios reached', n, 6, mod, run)
    rr.paths += m.npaths


@rule('C08.R2', 'policy tables: none=0, clean and error are distinct single bits, all = clean|error; on_exit_msg obeys "error" only under the error bit '
                '(raising PropagateError) and anything else only under the clean bit; run() tests the bit that matches the exit kind')
def r2(rr, repo):
    m = model(repo)
    mod = m.mod
    FL = m.flags
    node = [st for st in mod.tree.body if isinstance(st, ast.Assign) and U(st.targets[0]) == 'PROP_EXIT_FLAGS'][0]
    single = lambda v: isinstance(v, int) and v > 0 and v & (v - 1) == 0
    ok = set(FL) == {'all', 'clean', 'error', 'none'} and FL['none'] == 0 and single(FL['clean']) and single(FL['error']) and FL['clean'] != FL['error'] and FL['all'] == FL['clean'] | FL['error']
    rr.ob('PROP_EXIT_FLAGS is a proper bit table', ok, mod, node, witness=str(FL), key='flags-table')
    _, init = repo.find(f'{FILTER}::Filter.init')
    handler = [n for n in walk_scope(init) if isinstance(n, ast.FunctionDef)]
    mqcalls = [c for c in q.name_calls(init, 'MQ')]
    hname = None
    for c in mqcalls:
        kw = q.kwarg(c, 'on_exit_msg')
        if kw is not None and isinstance(kw, ast.Name):
            hname = kw.id
    h = [f for f in handler if f.name == hname]
    if not h:
        raise Unresolved(f'{FILTER}: Filter.init does not hand a nested on_exit_msg handler to MQ(...)')
    h = h[0]
    ev = Evaluator(repo, mod)
    ev.scope_node = h
    param = q.func_params(h)[0]
    ps = ev.run(h.body)
    rr.paths += len(ps)
    n = 0
    for p in ps:
        is_err = p.facts.get(f"eq('error', {param})")
        if is_err is None:
            is_err = p.facts.get(f"eq({param}, 'error')")
        exits = [e for e in p.events if e.kind == 'call' and e.term == 'self.exit']
        bits = [(k, v) for k, v in p.pc if k.startswith('truthy(self.obey_exit & ')]
        w = f'{p.pc_text()} => {[repr(e) for e in exits]}'
        if is_err is None:
            rr.unresolved('on_exit_msg does not branch on reason == "error"', mod, h, witness=w, key='handler-shape')
            continue
        kind = 'error' if is_err else 'clean'
        for e in exits:
            n += 1
            bitok = bool(bits) and bits[-1][1] is True and f"PROP_EXIT_FLAGS['{kind}']" in bits[-1][0]
            rr.ob(f'a neighbour\'s {kind} exit is obeyed only under the {kind} bit of obey_exit', bitok, mod, e.node, witness=w, key=f'obey-bit|{kind}')
            if kind == 'error':
                rr.ob('obeying an error exit raises PropagateError (so this filter ends as an error too)', len(e.args) >= 2 and e.args[1] == 'Filter.PropagateError', mod, e.node, witness=w, key='obey-error-exc')
            else:
                rr.ob('obeying a clean exit is a clean exit (no exception class passed)', len(e.args) < 2 and not e.kwargs, mod, e.node, witness=w, key='obey-clean-exc')
        if not exits and bits and bits[-1][1] is True:
            rr.violated(f'the {kind} bit is set but the exit message is ignored', mod, h, witness=w, key=f'obey-ignored|{kind}')
        if not bits:
            rr.violated(f'a neighbour\'s {kind} exit is handled without consulting obey_exit', mod, h, witness=w, key=f'obey-untested|{kind}')
    rr.floor('exit() calls in on_exit_msg', n, 2, mod, h)
    # run(): the literal bits in `prop_exit & (E if is_exc else C)` equal the table
    tests = [n_ for n_ in walk_scope(m.run) if isinstance(n_, ast.If) and isinstance(n_.test, ast.BinOp) and isinstance(n_.test.op, ast.BitAnd) and 'prop_exit' in U(n_.test.left)]
    rr.floor('policy tests in run()', len(tests), 1, mod, m.run)
    for t in tests:
        r = t.test.right
        if isinstance(r, ast.IfExp):
            def val(x):
                try:
                    return q.fold(x, {'PROP_EXIT_FLAGS': FL})
                except Exception:
                    if isinstance(x, ast.Subscript) and U(x.value) == 'PROP_EXIT_FLAGS':
                        return FL.get(q.const_str(x.slice))
                    return None
            rr.ob("run() tests the error bit when an Exception is in flight and the clean bit otherwise", val(r.body) == FL['error'] and val(r.orelse) == FL['clean'] and 'is_exc' in U(r.test),
                  mod, t, witness=U(t.test), key='run-bits')
            msg = [c for c in q.attr_calls(t, 'send_exit_msg')]
            okm = bool(msg) and isinstance(msg[0].args[0], ast.IfExp) and q.const_str(msg[0].args[0].body) == 'error' and q.const_str(msg[0].args[0].orelse) == 'clean' and U(msg[0].args[0].test) == U(r.test)
            rr.ob("and announces 'error' / 'clean' under the same test", okm, mod, t, key='run-msg')
        else:
            rr.unresolved('policy test in run() is not of the form prop_exit & (E if is_exc else C)', mod, t, key='run-bits-shape')
    # obey_exit stored from the table
    _, ctor = repo.find(f'{FILTER}::Filter.__init__')
    st = [s for s, t in q.stores_to_attr(ctor, 'obey_exit') if isinstance(s, ast.Assign)]
    rr.ob('obey_exit is looked up in the same table', bool(st) and U(st[0].value).startswith('PROP_EXIT_FLAGS['), mod, st[0] if st else ctor, key='obey-table')


@rule('C08.R3', 'exit() always leaves by raising (Filter.Exit unless an exception class is given) and sets the stop event first')
def r3(rr, repo):
    m = model(repo)
    ev = Evaluator(repo, m.mod)
    ev.scope_node = m.exit
    ps = ev.run(m.exit.body)
    rr.paths += len(ps)
    n = 0
    for p in ps:
        n += 1
        rr.ob('every path of exit() ends in raise', p.outcome is not None and p.outcome[0] == 'raise', m.mod, m.exit, witness=f'{p.pc_text()} => {p.outcome_text()}', key='exit-raises')
        if p.outcome is not None and p.outcome[0] == 'raise':
            exc = p.outcome[1]
            param = q.func_params(m.exit)[2]
            given = p.facts.get(f'truthy({param})')
            if given is False:
                rr.ob('without an explicit exception exit() raises Filter.Exit (a SystemExit: clean)', exc.ref == m.kref['Exit'], m.mod, m.exit, witness=exc.text, key='exit-default')
        isset = p.facts.get('truthy(self.stop_evt.is_set())')
        if isset is False:
            sets = [e for e in p.events if e.kind == 'call' and e.term == 'self.stop_evt.set']
            rr.ob('the first exit() sets the stop event before raising', bool(sets), m.mod, m.exit, witness=p.pc_text(), key='exit-sets-evt')
    rr.floor('paths of exit()', n, 2, m.mod, m.exit)


@rule('C08.R4', 'loop_once polls the stop event in both wait loops and tests the exit_after deadline on every normal path to its end; an iteration that ends in an error the main loop only logs (LOOP_EXC off) '
                'tests the deadline in that handler')
def r4(rr, repo):
    mod, fn = repo.find(f'{FILTER}::Filter.loop_once')
    # the handler of the main loop that logs an error and carries on: loop_once() did not reach its own deadline test, so the handler has to make it
    _, runfn = repo.find(f'{FILTER}::Filter.run')
    hs = [h for t in ast.walk(runfn) if isinstance(t, ast.Try) and any(isinstance(c, ast.Call) and U(c.func).endswith('.loop_once') for st_ in t.body for c in ast.walk(st_)) for h in t.handlers
          if h.type is not None and U(h.type) == 'loop_exc']
    rr.floor('handlers of the main loop that log an error and carry on', len(hs), 1, mod, runfn)
    for h in hs:
        cmps = [c for c in ast.walk(h) if isinstance(c, ast.Compare) and 'exit_after_t' in U(c) and any(isinstance(x, ast.Call) and U(x.func) in ('time.time', 'time') for x in ast.walk(c))]
        exits = [c for c in q.calls_in(h) if U(c.func).endswith('.exit') and c.args and q.const_str(c.args[0]) == 'exit_after']
        rr.ob('the handler that logs a loop error and carries on tests the exit_after deadline (a filter whose process() raises on every call would otherwise never reach it)', bool(cmps) and bool(exits), mod, h,
              witness=f'deadline comparisons in the handler: {len(cmps)}; exit(\'exit_after\') calls: {len(exits)}', key='deadline-in-loop-error-handler')
    q.expect_locals(mod, fn, ['self'])
    exit_ref = ('repo', f'{FILTER}::Filter.Exit')

    def oracle(call, rc, path, ev_):
        if ev_.term == 'self.exit':
            return [Exc(exit_ref, 'Filter.Exit', call)]   # C08.R3: exit() always raises
        return None

    ev = Evaluator(repo, mod, unroll_while=1, call_oracle=oracle)
    ev.explore_handlers = False
    ps = ev.run(fn.body)
    rr.paths += len(ps)
    n_end = n_wait_r = n_wait_s = 0
    for p in ps:
        pc = p.pc
        # receive wait: recv returned None
        rnone = [v for k, v in pc if k.startswith('isnone(self.mq.recv(')]
        stops = [(i, v) for i, (k, v) in enumerate(pc) if k == 'truthy(self.stop_evt.is_set())']
        exits = [e for e in p.events if e.kind == 'call' and e.term == 'self.exit']
        if rnone and rnone[0] is True:
            n_wait_r += 1
            ok = bool(stops)
            rr.ob('while waiting for input the stop event is polled', ok, mod, fn, witness=p.pc_text(), key='poll-recv')
            if stops and stops[0][1] is True:
                rr.ob('a set stop event ends the wait by exit()', bool(exits) and not exits[0].args, mod, fn, witness=p.pc_text(), key='poll-recv-exit')
        sfalse = [v for k, v in pc if k.startswith('truthy(self.mq.send(')]
        if sfalse and sfalse[0] is False:
            n_wait_s += 1
            # a stop-event poll after the send attempt
            idx = [i for i, (k, v) in enumerate(pc) if k.startswith('truthy(self.mq.send(')][0]
            after = [s for s in stops if s[0] > idx]
            rr.ob('while waiting to send the stop event is polled', bool(after), mod, fn, witness=p.pc_text(), key='poll-send')
            if after and after[0][1] is True:
                rr.ob('a set stop event ends the send wait by exit() as well', bool(exits), mod, fn, witness=p.pc_text()[-200:], key='poll-send-exit')
        if p.outcome is None or p.outcome[0] == 'return':     # falling off the end and an early `return` both end the iteration normally
            n_end += 1
            dl = [v for k, v in pc if k == 'isnone(self.exit_after_t)']
            rr.ob('every normal end of loop_once looked at the exit_after deadline', bool(dl), mod, fn, witness=p.pc_text(), key='deadline-tested')
        dl = [v for k, v in pc if k == 'isnone(self.exit_after_t)']
        if dl and dl[0] is False:
            cmp_ = [(k, v) for k, v in pc if k.startswith('ord(') and 'self.exit_after_t' in k]
            if cmp_:
                k, v = cmp_[-1]
                inner = k[4:-1]
                first_is_deadline = inner.startswith('self.exit_after_t')
                rel_now_vs_deadline = ({'<': '>', '>': '<', '=': '='}[v]) if first_is_deadline else v
                passed = rel_now_vs_deadline in ('>', '=')
                ex = [e for e in exits if e.args and 'exit_after' in e.args[0]]
                rr.ob('deadline passed => exit("exit_after"); not passed => no such exit', bool(ex) == passed, mod, fn, witness=p.pc_text(), key=f'deadline-exit|passed={passed}')
                clock = inner.replace('self.exit_after_t', '').strip(', ')
                rr.ob('the deadline is compared with a clock reading (a call)', clock.endswith('()'), mod, fn, witness=clock, key='deadline-clock')
            else:
                rr.violated('exit_after is set but never compared with the clock', mod, fn, witness=p.pc_text(), key='deadline-nocmp')
    rr.floor('paths waiting for input', n_wait_r, 1, mod, fn)
    # the main loop of run(): iterations go on exactly while the stop event is not set
    _, run = repo.find(f'{FILTER}::Filter.run')
    mains = [w for w in ast.walk(run) if isinstance(w, ast.While) and any(isinstance(c, ast.Call) and U(c.func).endswith('.loop_once') for c in ast.walk(w))]
    rr.floor('main loops in Filter.run', len(mains), 1, mod, run)
    for w in mains:
        t = w.test
        ok = isinstance(t, ast.UnaryOp) and isinstance(t.op, ast.Not) and isinstance(t.operand, ast.Call) and U(t.operand.func).endswith('stop_evt.is_set') and not w.orelse
        rr.ob('run() keeps calling loop_once while - and only while - the stop event is not set', ok, mod, w, witness=U(t)[:80], key='main-loop-condition')
    rr.floor('paths waiting to send', n_wait_s, 1, mod, fn)
    rr.floor('normal ends of loop_once', n_end, 1, mod, fn)


def module_import_names(mod) -> dict:
    """Names bound at module level by `import m` / `import m as n` and by nothing else in the module scope."""
    imp = {}
    other = set()
    for n in ast.walk(mod.tree):
        if enclosing_function(n) is not None:
            continue
        if isinstance(n, ast.Import):
            for a in n.names:
                imp[a.asname or a.name.split('.')[0]] = n
        elif isinstance(n, ast.ImportFrom):
            for a in n.names:
                other.add(a.asname or a.name)
        elif isinstance(n, (ast.FunctionDef, ast.AsyncFunctionDef, ast.ClassDef)):
            other.add(n.name)
        elif isinstance(n, ast.Name) and isinstance(n.ctx, ast.Store):
            other.add(n.id)
    return {k: v for k, v in imp.items() if k not in other}


def locally_bound(name: str, node: ast.AST) -> bool:
    """Is `name` bound in any function/class scope enclosing node (params, assignments, imports, defs, loops, ...)?"""
    for a in list(ancestors_incl(node)):
        if isinstance(a, (ast.FunctionDef, ast.AsyncFunctionDef, ast.Lambda)):
            args = a.args
            if any(x.arg == name for x in args.posonlyargs + args.args + args.kwonlyargs) or (args.vararg and args.vararg.arg == name) or (args.kwarg and args.kwarg.arg == name):
                return True
            if not isinstance(a, ast.Lambda):
                for n in walk_scope(a):
                    if isinstance(n, ast.Name) and isinstance(n.ctx, ast.Store) and n.id == name:
                        return True
                    if isinstance(n, (ast.Import, ast.ImportFrom)) and any((x.asname or x.name.split('.')[0]) == name for x in n.names):
                        return True
                    if isinstance(n, (ast.FunctionDef, ast.AsyncFunctionDef, ast.ClassDef)) and n.name == name:
                        return True
                    if isinstance(n, ast.ExceptHandler) and n.name == name:
                        return True
        elif isinstance(a, ast.ClassDef):
            for st in a.body:
                for n in ast.walk(st) if not isinstance(st, (ast.FunctionDef, ast.AsyncFunctionDef)) else [st]:
                    if isinstance(n, ast.Name) and isinstance(n.ctx, ast.Store) and n.id == name:
                        return True
                    if isinstance(n, (ast.FunctionDef, ast.AsyncFunctionDef, ast.ClassDef)) and n.name == name:
                        return True
        elif isinstance(a, (ast.ListComp, ast.SetComp, ast.GeneratorExp, ast.DictComp)):
            for g in a.generators:
                if any(isinstance(x, ast.Name) and x.id == name for x in ast.walk(g.target)):
                    return True
    return False


def ancestors_incl(node):
    from ..model import ancestors
    yield from ancestors(node)


_CONTROL = "import time\nimport os as operating\n\ndef f(x):\n    return time() + operating()\n\ndef g(time):\n    return time()\n"


def calls_of_modules(mod):
    imp = module_import_names(mod)
    out = []
    for n in ast.walk(mod.tree):
        if isinstance(n, ast.Call) and isinstance(n.func, ast.Name) and n.func.id in imp and not locally_bound(n.func.id, n):
            out.append(n)
    return out


@rule('C08.R5', 'no call of a module object: a bare-name call whose name is bound (by scoping rules) to `import m` is a definite TypeError')
def r5(rr, repo):
    from ..model import Module
    ctrl = Module(repo, 'control.py', _CONTROL)
    found = calls_of_modules(ctrl)
    rr.ob('positive control: the detector finds exactly the two module calls of the embedded example (and not the shadowed one)', len(found) == 2, key='control')
    n = 0
    for mod in repo.modules.values():
        n += len(module_import_names(mod))
        for c in calls_of_modules(mod):
            rr.violated(f'`{c.func.id}(...)` calls the module `{c.func.id}` (import {c.func.id}): TypeError when reached', mod, c, key=f'module-call|{c.func.id}')
    rr.floor('module-level `import m` bindings examined', n, 50)
    if not any(o.status == 'VIOLATED' for o in rr.obligations):
        rr.holds('no bare-name call resolves to an imported module anywhere in the package', key='none')


@rule('C08.R6', 'communication really is torn down: every endpoint MQ constructs is destroyed, every socket an endpoint creates is closed by its '
                'owner (push under the same ephemeral guard), the context is reference-counted, CLOSE + linger precede the closes')
def r6(rr, repo):
    mqm, mq_init = repo.find(f'{MQF}::MQ.__init__')
    _, mq_destroy = repo.find(f'{MQF}::MQ.destroy')
    _, mq_exitmsg = repo.find(f'{MQF}::MQ.send_exit_msg')
    made = []
    for st, tgt in [(s, t) for s in walk_scope(mq_init) if isinstance(s, ast.Assign) for t in s.targets]:
        if isinstance(tgt, ast.Attribute) and U(tgt.value) == 'self' and any(isinstance(c, ast.Call) and U(c.func) in ('ZMQSender', 'ZMQReceiver') for c in ast.walk(st.value)):
            made.append(tgt.attr)
    made = sorted(set(made))
    rr.floor('endpoints constructed by MQ.__init__', len(made), 3, mqm, mq_init)
    for attr in made:
        d = [c for c in q.attr_calls(mq_destroy, 'destroy') if U(c.func) == f'self.{attr}.destroy']
        rr.ob(f'MQ.destroy() destroys self.{attr}', bool(d), mqm, mq_destroy, key=f'destroy|{attr}')
        o = [c for c in q.attr_calls(mq_exitmsg, 'send_oob') if U(c.func) == f'self.{attr}.send_oob']
        rr.ob(f'the exit message is sent through self.{attr}', bool(o), mqm, mq_exitmsg, key=f'exitmsg|{attr}')
    zm = repo.module(Z)
    for cls, init, destroy, socks in (('ZMQSender', 'ZMQSender.__init__', 'ZMQSender.destroy', ('pull', 'pub')),
                                      ('ZMQReceiver', 'ZMQReceiver.Sender.__init__', 'ZMQReceiver.destroy', ('sub', 'push'))):
        _, fi = repo.find(f'{Z}::{init}')
        _, fd = repo.find(f'{Z}::{destroy}')
        created = [c for c in q.attr_calls(fi, 'socket')]
        rr.floor(f'{cls}: sockets created', len(created), 2, zm, fi)
        closes = [c for c in q.attr_calls(fd, 'close')]

        def closed_kind(c):
            """which socket collection / attribute does `<x>.close()` close: resolve loop variables through zip(self.pulls, self.pubs)"""
            recv = c.func.value
            if isinstance(recv, ast.Attribute):
                return recv.attr
            if isinstance(recv, ast.Name):
                for a in ancestors_incl(c):
                    if isinstance(a, ast.For):
                        tg = a.target.elts if isinstance(a.target, ast.Tuple) else [a.target]
                        its = a.iter.args if isinstance(a.iter, ast.Call) and U(a.iter.func) == 'zip' else [a.iter]
                        for t, it in zip(tg, its):
                            if isinstance(t, ast.Name) and t.id == recv.id and isinstance(it, ast.Attribute):
                                return it.attr.rstrip('s')
            return U(recv)
        for s in socks:
            cl = [c for c in closes if closed_kind(c) == s]
            rr.ob(f'{cls}.destroy() closes the {s} socket(s)', bool(cl), zm, fd, key=f'close|{cls}|{s}')
            if s == 'push' and cl:
                g = q.guards_of(cl[0])
                rr.ob('the push socket is closed under the guard it was created under (ephemeral < 2)', any(pol and 'ephemeral < 2' in U(t) for t, pol in g), zm, cl[0], key='close-push-guard')
        # loops cover all sockets
        for c in closes:
            loops = [a for a in ancestors_incl(c) if isinstance(a, ast.For)]
            rr.ob('sockets are closed in a loop over all of the endpoint\'s sockets', bool(loops), zm, c, key=f'close-loop|{cls}|{U(c.func)}')
        gets = [c for c in q.calls_in(fi if cls == 'ZMQSender' else repo.find(f'{Z}::ZMQReceiver.__init__')[1]) if U(c.func) == 'ZMQContext.get']
        frees = [c for c in q.calls_in(fd) if U(c.func) == 'ZMQContext.free']
        rr.ob(f'{cls}: one ZMQContext.get() at construction is paired with one ZMQContext.free() in destroy()', len(gets) == 1 and len(frees) == 1 and not q.guards_of(frees[0]), zm, fd, key=f'ctx|{cls}')
        sl = [c for c in q.name_calls(fd, 'sleep')]
        first_close = min([c.lineno for c in closes] or [10 ** 9])
        courtesy = [c for c in q.calls_in(fd) if U(c.func).endswith('send_multipart') or U(c.func).endswith('send_push')]
        rr.ob(f'{cls}.destroy(): the courtesy CLOSE and the linger sleep precede the closes', bool(sl) and bool(courtesy) and max(c.lineno for c in courtesy) < sl[0].lineno < first_close, zm, fd, key=f'linger|{cls}')


@rule('C08.R7', "an exit announcement reaches the neighbour's handler whenever it arrives: on both sides of a connection the out-of-band callback is guarded by nothing but \"this is an out-of-band message\" "
                '(not by the peer being registered, connected or having asked for a frame), it is the callback Filter.init installed, and send_exit_msg addresses every endpoint')
def r7(rr, repo):
    Z = 'openfilter/filter_runtime/zeromq.py'
    zmod = repo.module(Z)
    sites = []
    for fnname in ('ZMQSender.send.poll_recv', 'ZMQReceiver.recv.recv_once'):
        _, fn = repo.find(f'{Z}::{fnname}')
        calls = [c for c in q.calls_in(fn) if U(c.func) == 'self.message_oob']
        rr.floor(f'out-of-band deliveries in {fnname}', len(calls), 1, zmod, fn)
        for c in calls:
            sites.append(c)
            g = []
            for t, pol in q.guards_of(c, stop=fn):
                if pol and isinstance(t, ast.BoolOp) and isinstance(t.op, ast.And):
                    g.extend((v, True) for v in t.values)
                else:
                    g.append((t, pol))
            extra = []
            for t, pol in g:
                txt = U(t)
                # loop conditions of the receive loops (`while socks := poller.poll(..)`, `while socks`, `while True`) and the message-kind tests
                if isinstance(t, ast.NamedExpr) or txt in ('socks', 'True') or 'poller.poll(' in txt:
                    continue
                names = {x.id for x in ast.walk(t) if isinstance(x, ast.Name)}
                consts = {x for x in names if x.startswith('MSG_ID_')}
                if consts and names - consts <= {'prev_id', 'msg_id'} and (pol or 'MSG_ID_OOB' not in consts):
                    continue     # a test of the message id against the special-id constants
                extra.append(('' if pol else 'not ') + txt)
            rr.ob(f'{fnname}: the out-of-band message is handed to the callback whenever one arrives (no condition on the peer: registered, connected, has requested ...)', not extra, zmod, c,
                  witness=' && '.join(extra)[:200] or 'only message-kind tests', key=f'oob-unconditional|{fnname}')
    # the announcing side: send_oob writes the envelope with the out-of-band id to every socket of the endpoint, under no condition on the peer
    for cls, coll, sendname in (('ZMQSender', 'self.pubs', 'send_multipart'), ('ZMQReceiver', 'self.senders.values()', 'send_push')):
        _, so = repo.find(f'{Z}::{cls}.send_oob')
        sends = [c for c in q.calls_in(so) if isinstance(c.func, ast.Attribute) and c.func.attr == sendname]
        rr.floor(f'out-of-band sends in {cls}.send_oob', len(sends), 1, zmod, so)
        for c in sends:
            loops = [a for a in ancestors_incl(c) if isinstance(a, ast.For)]
            over_all = len(loops) == 1 and U(loops[0].iter) == coll and isinstance(loops[0].target, ast.Name) and U(c.func.value) == loops[0].target.id and not loops[0].orelse
            g = [('' if pol else 'not ') + U(t) for t, pol in q.guards_of(c, stop=so)]
            early = [n for n in walk_scope(so) if isinstance(n, (ast.Return, ast.Raise, ast.Break, ast.Continue))]
            rr.ob(f'{cls}.send_oob: the announcement is written to every socket of the endpoint ({coll}), under no condition on the peer and with no early way out', over_all and not g and not early, zmod, c,
                  witness=(f'loop over {U(loops[0].iter)}' if loops else 'no loop') + (f'; guarded by {" && ".join(g)[:120]}' if g else '') + (f'; {type(early[0]).__name__.lower()} at line {early[0].lineno}' if early else ''),
                  key=f'oob-send-all|{cls}')
        mids = [v for d in ast.walk(so) if isinstance(d, ast.Dict) for k, v in zip(d.keys, d.values) if k is not None and q.const_str(k) == 'mid']
        rr.ob(f'{cls}.send_oob: the envelope carries the out-of-band message id', len(mids) == 1 and U(mids[0]) == 'MSG_ID_OOB', zmod, so, witness=U(mids[0]) if mids else 'no mid key', key=f'oob-send-mid|{cls}')
    # Sender.send_push (the request channel the receiver announces on) writes unless the channel has no request socket at all
    _, sp = repo.find(f'{Z}::ZMQReceiver.Sender.send_push')
    for c in [c for c in q.calls_in(sp) if U(c.func) == 'self.push.send_multipart']:
        g = [('' if pol else 'not ') + U(t) for t, pol in q.guards_of(c, stop=sp)]
        rr.ob('Sender.send_push writes to the request socket whenever the channel has one (ephemeral < 2), whatever the connection state', g == ['self.ephemeral < 2'], zmod, c, witness=' && '.join(g)[:160] or 'unguarded', key='send-push-guard')
    # a filter that has nothing to publish still reads its request sockets (the only place a downstream exit announcement can arrive): every return of MQ.send that
    # does not go through sender.send(...) services the sender first, and that service call can publish nothing
    mqm_, mqsend = repo.find(f'{MQF}::MQ.send')
    early = [n for n in mqsend.body if isinstance(n, ast.If) and 'frames is None' in U(n.test) and any(isinstance(x, ast.Return) for x in n.body)]
    rr.floor('early returns of MQ.send for "nothing to publish"', len(early), 1, mqm_, mqsend)
    uses_poll = False
    for blk in early:
        ret = next(x for x in blk.body if isinstance(x, ast.Return))
        svc = [c for st_ in blk.body[:blk.body.index(ret)] for c in q.calls_in(st_) if isinstance(c.func, ast.Attribute) and U(c.func.value) == 'self.sender' and c.func.attr in ('poll', 'send')]
        extra = [[U(t) for t, pol in q.guards_of(c, stop=blk)] for c in svc]
        # ... or through MQ's own poll(), which must do just that whenever there is a sender
        own = [c for st_ in blk.body[:blk.body.index(ret)] for c in q.calls_in(st_) if U(c.func) == 'self.poll']
        if own:
            _, mqpoll = repo.find(f'{MQF}::MQ.poll')
            inner = [c for c in q.calls_in(mqpoll) if U(c.func) == 'self.sender.poll']
            if len(inner) == 1 and [U(t) for t, pol in q.guards_of(inner[0], stop=mqpoll) if pol] in ([], ['self.sender is not None']) and not any(isinstance(x, (ast.Return, ast.Raise)) for x in walk_scope(mqpoll)):
                svc += own
                extra += [[U(t) for t, pol in q.guards_of(c, stop=blk)] for c in own]
                uses_poll = True
            else:
                rr.ob('MQ.poll services the sender whenever there is one', False, mqm_, mqpoll, witness=f'{len(inner)} calls of self.sender.poll', key='mq-poll-services-sender')
        ok = bool(svc) and all(g in ([], ['self.sender is not None']) for g in extra)
        uses_poll |= any(c.func.attr == 'poll' and U(c.func.value) == 'self.sender' for c in svc)
        rr.ob('MQ.send: the return that publishes nothing (frames is None) still services the request sockets of the sender, whenever there is a sender', ok, mqm_, ret,
              witness=f'sender calls before the return: {[U(c)[:40] for c in svc] or "none"}; conditions: {extra}', key='none-path-services-requests')
        for c in svc:
            if c.func.attr == 'send':
                a0 = c.args[0] if c.args else None
                rr.ob('the service call can publish nothing (its callable yields None)', isinstance(a0, ast.Lambda) and isinstance(a0.body, ast.Constant) and a0.body.value is None, mqm_, c, witness=U(c)[:80], key='service-publishes-nothing')
    # ... and so does a filter that is waiting for its sources: every round of the receive wait loop of loop_once services the outputs
    fmod_, lo = repo.find(f'{FILTER}::Filter.loop_once')
    waits = [n for n in walk_scope(lo) if isinstance(n, ast.While) and 'self.mq.recv(' in U(n.test)]
    rr.floor('receive wait loops in loop_once', len(waits), 1, fmod_, lo)
    for w in waits:
        polls = [c for c in q.calls_in(w, into_functions=False) if U(c.func) in ('self.mq.poll', 'self.mq.sender.poll')]
        okw = bool(polls) and any(not q.guards_of(c, stop=w) and q.enclosing_stmt(c) in w.body for c in polls)
        conts = [n for n in ast.walk(w) if isinstance(n, ast.Continue)]      # a `continue` before the poll would skip it round after round (a break / return only on the last one)
        okw = okw and not any(n.lineno < min(c.lineno for c in polls) for n in conts)
        rr.ob('loop_once: while waiting for its sources a filter services the request sockets of its outputs on every round, so a downstream exit is heard', okw, fmod_, w,
              witness=f'poll calls in the wait loop: {[U(c)[:30] for c in polls] or "none"}', key='recv-wait-services-outputs')
        uses_poll |= bool(polls)
    if uses_poll:
        _, pollfn = repo.find(f'{Z}::ZMQSender.poll')
        pc = [c for c in q.calls_in(pollfn) if U(c.func) == 'self.send']
        okp = len(pc) == 1 and pc[0].args and isinstance(pc[0].args[0], ast.Lambda) and isinstance(pc[0].args[0].body, ast.Constant) and pc[0].args[0].body.value is None and \
            any(k.arg == 'timeout' and isinstance(k.value, ast.Constant) and k.value.value == 0 for k in pc[0].keywords) and not any(k.arg == 'push' for k in pc[0].keywords)
        rr.ob('ZMQSender.poll runs the request loop of send() with a callable that yields nothing to publish, without waiting and without forcing a publish', okp, zmod, pc[0] if pc else pollfn,
              witness=U(pc[0])[:100] if pc else 'no call of self.send', key='poll-publishes-nothing')
    # the callback is the constructor argument (defaulting to a no-op), stored once
    for cls in ('ZMQSender', 'ZMQReceiver'):
        _, init = repo.find(f'{Z}::{cls}.__init__')
        st = [n for n in ast.walk(init) if isinstance(n, ast.Assign) and any(U(t) == 'self.message_oob' for t in n.targets)]
        ok = len(st) == 1 and isinstance(st[0].value, ast.IfExp) and U(st[0].value.orelse) == 'message_oob' and 'message_oob is None' in U(st[0].value.test)
        rr.ob(f'{cls} keeps the out-of-band callback it was constructed with', ok, zmod, st[0] if st else init, witness=U(st[0].value)[:100] if st else 'no store', key=f'oob-callback|{cls}')
        others = [n for n in ast.walk(repo.find(f'{Z}::{cls}')[1]) if isinstance(n, ast.Assign) and any(U(t) == 'self.message_oob' for t in n.targets) and n not in st]
        rr.ob(f'{cls} never replaces the callback later', not others, zmod, others[0] if others else init, key=f'oob-callback-once|{cls}')
    # MQ hands the handler to every endpoint it builds and send_exit_msg addresses every endpoint kind
    mqm, mq_init = repo.find(f'{MQF}::MQ.__init__')
    _, exitmsg = repo.find(f'{MQF}::MQ.send_exit_msg')
    ends = [c for c in q.calls_in(mq_init) if U(c.func) in ('ZMQSender', 'ZMQReceiver', 'MQSender', 'MQReceiver')]
    rr.floor('endpoints constructed by MQ', len(ends), 2, mqm, mq_init)
    attrs = set()
    for n in ast.walk(mq_init):
        if isinstance(n, ast.Assign) and any(isinstance(c, ast.Call) and U(c.func) in ('ZMQSender', 'ZMQReceiver') for c in ast.walk(n.value)):
            attrs |= {U(t) for t in n.targets if U(t).startswith('self.')}
    oob = {U(c.func.value) for c in q.calls_in(exitmsg) if isinstance(c.func, ast.Attribute) and c.func.attr == 'send_oob'}
    rr.ob('send_exit_msg announces on every endpoint MQ owns', bool(attrs) and attrs <= oob, mqm, exitmsg, witness=f'endpoints {sorted(attrs)} announced on {sorted(oob)}', key='exit-msg-all-endpoints')
    # the handler MQ passes on is a plain adapter: EVERY announcement reaches the filter's on_exit_msg, which decides by its obey policy - an adapter that hands on the first one only drops the
    # 'error' a filter must obey after a 'clean' one it rightly ignored
    handed = {p_ for c in ends for p_ in ([U(a) for a in c.args] + [U(k.value) for k in c.keywords]) if 'on_exit_msg' in p_}
    for name in sorted(handed):
        defs = [n for n in walk_scope(mq_init) if isinstance(n, ast.Assign) and U(n.targets[0]) == name] + [n for n in walk_scope(mq_init) if isinstance(n, ast.FunctionDef) and n.name == name]
        if name == 'on_exit_msg' or not defs:
            rr.ob('the exit-message handler is handed on as it is', name == 'on_exit_msg', mqm, mq_init, witness=name, key=f'exit-adapter|{name}')
            continue
        d = defs[-1]
        if isinstance(d, ast.Assign):
            lam = [x for x in ast.walk(d.value) if isinstance(x, ast.Lambda)]
            calls = [x for l in lam for x in ast.walk(l.body) if isinstance(x, ast.Call) and U(x.func) == 'on_exit_msg']
            cond = [l for l in lam if isinstance(l.body, (ast.IfExp, ast.BoolOp)) and any(isinstance(x, ast.Call) and U(x.func) == 'on_exit_msg' for x in ast.walk(l.body))]
            rr.ob('the adapter hands every announcement on to on_exit_msg (the only condition: a handler was given)', bool(calls) and not cond, mqm, d, witness=U(d.value)[:120], key=f'exit-adapter|{name}')
        else:
            calls = [x for x in ast.walk(d) if isinstance(x, ast.Call) and U(x.func) == 'on_exit_msg']
            def conjuncts(t, p_):
                try:
                    e = ast.parse(t, mode='eval').body
                except SyntaxError:
                    return [(t, p_)]
                return [(U(v), p_) for v in e.values] if p_ and isinstance(e, ast.BoolOp) and isinstance(e.op, ast.And) else [(t, p_)]
            guards = [(t2, p2) for c_ in calls for t, p_ in q.effective_guards(c_, d) for t2, p2 in conjuncts(t, p_) if t2.replace(' ', '') not in ('on_exit_msgisnotNone', 'on_exit_msg')]
            rr.ob('the adapter hands every announcement on to on_exit_msg (the only condition: a handler was given)', bool(calls) and not guards, mqm, d, witness=f'conditions: {guards}'[:140], key=f'exit-adapter|{name}')
    for c in ends:
        passed = [U(a) for a in c.args] + [U(k.value) for k in c.keywords]
        data_end = not any('metrics' in U(t) for n in ast.walk(mq_init) if isinstance(n, ast.Assign) and any(x is c for x in ast.walk(n.value)) for t in n.targets)
        if data_end:
            rr.ob(f'MQ passes its exit-message handler to the {U(c.func)} it builds', any('on_exit_msg' in p or 'message_oob' in p or 'oob' in p for p in passed), mqm, c, witness=', '.join(passed)[:160], key=f'handler-passed|{U(c.func)}')


@rule('C08.R8', "the exit_after deadline is one kind of quantity everywhere: Filter.init stores an ABSOLUTE wall-clock time for every accepted form - now + seconds for a number or a '[[[d:]h:]m:]s' text (whose fields are "
                "weighted 86400 / 3600 / 60 / 1, rightmost field = seconds), the parsed date/time's timestamp for the '@' form, None for no deadline - and loop_once compares it with the same clock")
def r8(rr, repo):
    mod, init = repo.find(f'{FILTER}::Filter.init')
    _, lo = repo.find(f'{FILTER}::Filter.loop_once')
    stores = [n for n in walk_scope(init) if isinstance(n, ast.Assign) and any(U(t) == 'self.exit_after_t' for t in n.targets)]
    rr.floor('stores of the exit_after deadline in Filter.init', len(stores), 3, mod, init)
    kinds = set()
    clock = None
    for st in stores:
        v = st.value
        if isinstance(v, ast.Constant) and v.value is None:
            kinds.add('none')
        elif isinstance(v, ast.BinOp) and isinstance(v.op, ast.Add) and any(isinstance(x, ast.Call) and U(x.func) in ('time.time', 'time') and not x.args for x in (v.left, v.right)):
            kinds.add('now+interval')
            clock = U([x for x in (v.left, v.right) if isinstance(x, ast.Call)][0].func)
            other = v.right if isinstance(v.left, ast.Call) else v.left
            rr.ob('the relative forms are added to the current time', U(other) == 'exit_after', mod, st, witness=U(v)[:80], key='deadline-relative')
        elif isinstance(v, ast.Call) and isinstance(v.func, ast.Attribute) and v.func.attr == 'timestamp':
            kinds.add('absolute')
            inner = [c for c in ast.walk(v) if isinstance(c, ast.Call) and U(c.func) == 'parse_date_and_or_time']
            okabs = len(inner) == 1 and isinstance(inner[0].args[0], ast.Subscript) and isinstance(inner[0].args[0].slice, ast.Slice) and U(inner[0].args[0].slice.lower) == '1' and inner[0].args[0].slice.upper is None
            rr.ob("the '@' form is the timestamp of the parsed date / time with the '@' cut off", okabs, mod, st, witness=U(v)[:100], key='deadline-absolute')
        else:
            rr.unresolved('a store of the exit_after deadline has a form this rule does not know', mod, st, witness=U(v)[:100], key='deadline-form')
    rr.ob('Filter.init has a store for no deadline, for the relative forms and for the absolute form', kinds >= {'none', 'now+interval', 'absolute'}, mod, init, witness=str(sorted(kinds)), key='deadline-forms')
    # the relative branch is taken for numbers and for texts that do not start with '@', after parse_time_interval
    rel = [st for st in stores if isinstance(st.value, ast.BinOp)]
    for st in rel:
        g = [U(t) for t, pol in q.guards_of(st, stop=init) if pol]
        okg = any('isinstance(exit_after, (int, float))' in t and "startswith('@')" in t and 'parse_time_interval(exit_after)' in t for t in g)
        rr.ob("numbers are taken as seconds, other texts go through parse_time_interval unless they start with '@'", okg, mod, st, witness=' && '.join(g)[-200:], key='deadline-relative-guard')
    # loop_once compares with the same clock
    cmp_ = [c for c in ast.walk(lo) if isinstance(c, ast.Compare) and 'exit_after_t' in U(c) and len(c.ops) == 1]
    okc = any(isinstance(c.ops[0], (ast.GtE, ast.Gt)) and isinstance(c.left, ast.Call) and U(c.left.func) in ('time.time', 'time') and 'exit_after_t' in U(c.comparators[0]) for c in cmp_) or \
        any(isinstance(c.ops[0], (ast.LtE, ast.Lt)) and 'exit_after_t' in U(c.left) and isinstance(c.comparators[0], ast.Call) and U(c.comparators[0].func) in ('time.time', 'time') for c in cmp_)
    rr.ob('loop_once ends the filter once the current wall-clock time has reached the deadline', okc, mod, cmp_[0] if cmp_ else lo, witness='; '.join(U(c) for c in cmp_)[:120] or 'no comparison', key='deadline-compared')
    # the interval text: fields weighted days / hours / minutes / seconds, rightmost = seconds
    UTL_ = 'openfilter/filter_runtime/utils.py'
    um, pti = repo.find(f'{UTL_}::parse_time_interval')
    def folded(e):
        try:
            return q.fold(e, {})
        except Exception:
            return None
    lists = [n for n in ast.walk(pti) if isinstance(n, ast.List) and len(n.elts) == 4 and all(isinstance(folded(e), (int, float)) for e in n.elts)]
    weights = [folded(e) for e in lists[0].elts] if lists else None
    rr.ob("the interval fields are weighted 86400, 3600, 60, 1 (days, hours, minutes, seconds)", weights == [86400, 3600, 60, 1], um, lists[0] if lists else pti, witness=str(weights), key='interval-weights')
    last4 = any(isinstance(x, ast.Subscript) and isinstance(x.slice, ast.Slice) and U(x.slice.lower) == '-4' and x.slice.upper is None for x in ast.walk(pti))
    rr.ob("missing leading fields count as 0 and the rightmost field is the seconds (the text is left-padded and its LAST four fields are taken)", last4 and "'0:0:0:' + text" in U(pti), um, pti, key='interval-right-aligned')
    # the '@' form: a time of day without a date means TODAY in the zone the time is read in, and a local date / time carries the UTC offset in force on that date
    _, pdt = repo.find(f'{UTL_}::parse_date_and_or_time')
    tzs = [n for n in walk_scope(pdt) if isinstance(n, ast.Assign) and len(n.targets) == 1 and isinstance(n.targets[0], ast.Name) and 'timezone.utc' in U(n.value)]
    rr.floor('zone choices in parse_date_and_or_time', len(tzs), 1, um, pdt)
    tz = tzs[0].targets[0].id
    nows = [c for c in q.calls_in(pdt) if U(c.func) in ('datetime.now', 'datetime.today', 'date.today', 'datetime.utcnow', 'datetime.date.today', 'datetime.datetime.now', 'datetime.datetime.today', 'time.time', 'time')
            and c is not tzs[0].value and not any(x is c for x in ast.walk(tzs[0].value))]
    rr.floor("reads of the current date in parse_date_and_or_time (the default for a missing date)", len(nows), 1, um, pdt)
    for c in nows:
        in_zone = U(c.func).endswith('.now') and ((c.args and U(c.args[0]) == tz) or any(k.arg == 'tz' and U(k.value) == tz for k in c.keywords))
        rr.ob("'today' is today in the zone the time is read in (datetime.now(<zone>)): the host's calendar date with the zone stamped on differs from it for some hours of every day when '@' times are UTC "
              "and the host is not", in_zone, um, c, witness=U(c)[:70], key='today-in-the-zone-of-the-deadline')
    rets = [n for n in walk_scope(pdt) if isinstance(n, ast.Return) and n.value is not None]
    local_by_date = any(isinstance(c, ast.Call) and isinstance(c.func, ast.Attribute) and c.func.attr == 'astimezone' and not c.args and 'tzinfo=None' in U(c.func.value).replace(' ', '')
                        for r in rets for c in ast.walk(r.value))
    plain = all(isinstance(r.value, ast.Name) for r in rets)
    if local_by_date and len(rets) == 1:
        # ... in the right cases: only a time that carries today's local stamp is re-read by the rules of its date; UTC times and times with a zone of their own (ISO texts) stay as they are
        from ..peval import PEval, Obj, Lit, Sym, Undecided, Raised
        zone, other = Obj({}, tz), Obj({}, 'zone_of_the_text')
        for label, utc_v, zi, keep in (("'@' times are UTC", True, zone, True), ('the text names its own zone', False, other, True), ('a local wall-clock time', False, zone, False)):
            dtv = Obj({'tzinfo': zi}, 'dt')
            try:
                v = PEval({'utc': Lit(utc_v), 'dt': dtv, tz: zone}).ev(rets[0].value)
            except (Undecided, Raised) as exc:
                rr.unresolved(f'what parse_date_and_or_time returns when {label} could not be evaluated', um, rets[0], witness=str(exc)[:100], key=f'local-offset-sense|{label}')
                continue
            kept = v is dtv
            rr.ob(f"when {label} the time is {'returned as parsed' if keep else 're-read by the local rules of its date'}", kept == keep and (keep or 'astimezone' in repr(v)), um, rets[0], witness=f'-> {v!r}'[:90], key=f'local-offset-sense|{label}')
    if local_by_date or plain:
        rr.ob("a local date / time is given the UTC offset the local zone has ON THAT DATE (naive wall-clock time -> .astimezone()), not the one in force today - a date on the other side of a "
              "daylight-saving change would be an hour off", local_by_date, um, rets[0] if rets else pdt, witness=U(rets[0])[:110] if rets else '', key='local-offset-of-the-date')
    else:
        rr.unresolved('how parse_date_and_or_time attaches the local zone was not recognised', um, rets[0] if rets else pdt, witness=U(rets[0])[:110] if rets else '', key='local-offset-of-the-date')


@rule('C08.R9', "an exit announcement is heard from every source while a filter waits: a source whose set for the current id is complete is taken out of the poller until the whole set is returned, so whatever it "
                "sends next - its exit announcement included - stays unread while the join waits for its other sources; hearing it needs a second way of reading the sockets that are out of the poller "
                "(or keeping them in it and setting early data aside)")
def r9(rr, repo):
    from .zmq import anchors
    za = anchors(repo)
    unreg = [c for c in q.calls_in(za.R_once) if U(c.func) == 'poller.unregister' and any(pol and 'got_all' in U(t) for t, pol in q.guards_of(c, stop=za.R_once))]
    rr.floor('places where a complete source is taken out of the poller', len(unreg), 1, za.mod, za.R_once)
    # every read of a SUB socket in recv(): is its socket always one the poller just reported?
    reads = [c for c in q.calls_in(za.R_recv) if isinstance(c.func, ast.Attribute) and c.func.attr in ('recv_multipart', 'recv')]
    polled_only = True
    for c in reads:
        sock = U(c.func.value)
        from_poll = any(isinstance(n, ast.Assign) and isinstance(n.targets[0], ast.Tuple) and U(n.targets[0].elts[0]) == sock and 'socks' in U(n.value) for n in ast.walk(za.R_recv))
        if not from_poll:
            polled_only = False
    rr.ob('a source that is out of the poller (its set is complete) is still read for out-of-band messages while the join waits for the others', not polled_only or not unreg, za.mod, unreg[0] if unreg else za.R_once,
          witness=f'{len(unreg)} unregister site(s) for complete sources; sockets are read only when the poller reports them: {polled_only}', key='complete-source-exit-unheard')
    # ... and the announcement itself must arrive: a publisher announces its exit through the same PUB sockets as its frames, whose queue drops what does not fit; a consumer that is far behind
    # (an ephemeral one in a long process() call, 500 frames back) loses the announcement and the CLOSE like any frame and waits for ever. It needs a channel that does not drop (or a repeat).
    oob = [c for c in q.calls_in(za.S_cls, into_functions=True) if isinstance(c.func, ast.Attribute) and c.func.attr == 'send_multipart' and enclosing_function(c).name == 'send_oob']
    rr.floor('sends of an out-of-band message by the publisher', len(oob), 1, za.mod, za.S_cls)
    lossy = [c for c in oob if U(c.func.value).split('.')[-1] in ('pub', 'pubs')]
    hwm = [c for c in q.calls_in(za.S_init) if isinstance(c.func, ast.Attribute) and c.func.attr == 'setsockopt' and c.args and U(c.args[0]).endswith('SNDHWM') and 'pub' in U(c.func.value)]
    rr.ob("the publisher's exit announcement does not travel through a queue that drops when the consumer is behind", not (lossy and hwm), za.mod, lossy[0] if lossy else za.S_cls,
          witness=f'send_oob publishes on the PUB sockets ({len(lossy)} site), whose queue is bounded by {U(hwm[0].args[1]) if hwm else "?"} and drops', key='exit-announcement-through-lossy-queue')
    # ... and while it waits for its OUTPUTS: the send wait of loop_once reads the request sockets only (MQ.send); the exit announcement of a source arrives on a SUB socket, which nothing reads
    # until the next recv() - a filter whose output nobody takes (an optional viewer, a required output that never comes up) never learns that its source is gone
    fmod_, lo = repo.find(f'{FILTER}::Filter.loop_once')
    swaits = [n for n in walk_scope(lo) if isinstance(n, ast.While) and 'self.mq.send(' in U(n.test)]
    rr.floor('send wait loops in loop_once', len(swaits), 1, fmod_, lo)
    for w in swaits:
        reads_src = [c for c in q.calls_in(w, into_functions=False) if U(c.func).startswith('self.mq.') and any(k in U(c.func) for k in ('recv', 'poll_sources', 'receiver', 'poll_oob'))]
        rr.ob('loop_once: while waiting for its outputs a filter still reads what its sources send out of band, so an upstream exit is heard', bool(reads_src), fmod_, w,
              witness=f'calls that read the sources inside the send wait: {[U(c)[:40] for c in reads_src] or "none"}', key='send-wait-source-exit-unheard')


@rule('C08.R10', "the kind of exit that is announced is the kind that happened: Filter.run decides 'clean' or 'error' from the exception that actually passed through setup / the loop / shutdown - not from "
                 "sys.exc_info() read in a finally, which, with nothing in flight there, is whatever exception the CALLER of run() is handling at that moment (run() called from an except block: a clean end "
                 "announced as an error, or not announced at all)")
def r10(rr, repo):
    m = model(repo)
    mod, run = m.mod, m.run
    from ..model import ancestors as _anc
    sets = [n for n in walk_scope(run) if isinstance(n, ast.Assign) and U(n.targets[0]) == 'is_exc']
    rr.floor('decisions of the exit kind in Filter.run', len(sets), 1, mod, run)
    for n in sets:
        ambient = [c for c in ast.walk(n.value) if isinstance(c, ast.Call) and U(c.func) in ('sys.exc_info', 'exc_info', 'sys.exception')]
        in_finally = any(isinstance(a, ast.Try) and any(n is x for f_ in a.finalbody for x in ast.walk(f_)) for a in _anc(n))
        if ambient and in_finally:
            rr.ob('the exit kind is not read from the ambient exception state in a finally', False, mod, n, witness=U(n)[:100], key='exit-kind-from-what-passed')
            continue
        names = [x.id for x in ast.walk(n.value) if isinstance(x, ast.Name) and x.id not in ('isinstance', 'Exception', 'BaseException')]
        bound = [h for h in ast.walk(run) if isinstance(h, ast.ExceptHandler) and h.name and any(isinstance(a, ast.Assign) and U(a.targets[0]) in names and U(a.value) == h.name for a in h.body)]
        reraises = [h for h in bound if any(isinstance(x, ast.Raise) and x.exc is None for x in h.body)]
        wide = [h for h in reraises if h.type is None or U(h.type) == 'BaseException']
        cleared = [a for a in walk_scope(run) if isinstance(a, ast.Assign) and U(a.targets[0]) in names and U(a.value) == 'None' and a.lineno < n.lineno]
        if not ambient and wide and cleared:
            rr.ob('the exit kind is not read from the ambient exception state in a finally', True, mod, n, witness=f'{U(n)[:80]}; bound in `except {U(wide[0].type) if wide[0].type else ""} as {wide[0].name}` and re-raised', key='exit-kind-from-what-passed')
        elif ambient and not in_finally:
            rr.ob('the exit kind is not read from the ambient exception state in a finally', True, mod, n, witness=f'{U(n)[:80]} (inside an except clause: the exception being handled is the one that passed)', key='exit-kind-from-what-passed')
        else:
            rr.unresolved('how Filter.run decides between a clean and an error exit was not recognised', mod, n, witness=U(n)[:100], key='exit-kind-from-what-passed')


@rule('C08.R11', "the message-queue layer does what its callers rely on, in the right sense: MQ.destroy tears down every endpoint that exists, MQ.send_exit_msg announces on every endpoint that exists (sources upstream, "
                 "outputs downstream), MQ.poll services the sender when there is one - each guarded by 'this endpoint exists', not by its negation")
def r11(rr, repo):
    from .zmq import MQF
    mod = repo.module(MQF)
    table = (('MQ.destroy', 'destroy', ('self.receiver', 'self.sender')), ('MQ.send_exit_msg', 'send_oob', ('self.receiver', 'self.sender')), ('MQ.poll', 'poll', ('self.sender', 'self.metrics_sender')))
    for fname, meth, ends in table:
        _, fn = repo.find(f'{MQF}::{fname}')
        for end in ends:
            calls = [c for c in q.calls_in(fn, into_functions=False) if U(c.func) == f'{end}.{meth}']
            if len(calls) != 1:
                rr.ob(f'{fname} calls {end}.{meth}() exactly once', False, mod, fn, witness=f'{len(calls)} calls', key=f'mq-endpoint|{fname}|{end}')
                continue
            g = q.effective_guards(calls[0], fn)
            exists = [(t, p) for t, p in g if end in t.replace('self.metrics_sender', '#') or (end == 'self.metrics_sender' and end in t)]
            ok = bool(exists) and all((p and t.replace(' ', '') in (end, f'{end}isnotNone')) or ((not p) and t.replace(' ', '') == f'{end}isNone') for t, p in exists) and len(exists) == len(g)
            rr.ob(f'{fname}: {end}.{meth}() runs exactly when that endpoint exists', ok, mod, calls[0], witness=str(g)[:120], key=f'mq-endpoint|{fname}|{end}')


@rule('C08.R12', "communication is torn down also when it could only be set up in part: the endpoints of a filter are created one after the other (outputs first); when a later one can not be created the earlier "
                 "ones are destroyed before the error leaves MQ.__init__ - nobody else holds the half built object, its ports would stay bound until it is collected, after run() has ended with the error")
def r12(rr, repo):
    from .zmq import MQF
    mod, init = repo.find(f'{MQF}::MQ.__init__')
    makes = [c for c in q.calls_in(init, into_functions=False) if U(c.func) in ('ZMQSender', 'ZMQReceiver')]
    rr.floor('endpoint constructions in MQ.__init__', len(makes), 3, mod, init)
    from ..model import ancestors as _anc
    for c in makes:
        tries = [a for a in _anc(c) if isinstance(a, ast.Try) and any(x is c for st_ in a.body for x in ast.walk(st_))]
        ok = False
        for t in tries:
            for h in t.handlers:
                wide = h.type is None or U(h.type) in ('BaseException', 'Exception')
                destroys = any(isinstance(x, ast.Call) and U(x.func) == 'self.destroy' for x in ast.walk(h))
                reraises = any(isinstance(x, ast.Raise) and x.exc is None for x in h.body)
                ok = ok or (wide and destroys and reraises)
        rr.ob('a failure while this endpoint is created destroys what was created before and is raised again', ok, mod, c, witness=U(c)[:60], key=f'partial-setup-torn-down|{U(c.func)}|{makes.index(c)}')
    # ... and the same inside the publisher: it binds two sockets per address, one address after the other; when one of them can not be bound the ones bound so far are released
    zm, sinit = repo.find(f'{Z}::ZMQSender.__init__')
    binds = [c for c in q.calls_in(sinit, into_functions=False) if (isinstance(c.func, ast.Attribute) and c.func.attr == 'bind') or
             (U(c.func) == 'attach' and c.args and isinstance(c.args[0], ast.Attribute) and c.args[0].attr == 'bind')]
    rr.floor('bind sites in ZMQSender.__init__', len(binds), 2, zm, sinit)
    for c in binds:
        tries = [a for a in _anc(c) if isinstance(a, ast.Try) and any(x is c for st_ in a.body for x in ast.walk(st_))]
        ok = False
        for t in tries:
            for h in t.handlers:
                wide = h.type is None or U(h.type) in ('BaseException', 'Exception')
                destroys = any(isinstance(x, ast.Call) and U(x.func) == 'self.destroy' for x in ast.walk(h))
                reraises = any(isinstance(x, ast.Raise) and x.exc is None for x in h.body)
                ok = ok or (wide and destroys and reraises)
        rr.ob('a bind that fails releases what the publisher has bound so far (self.destroy()) and is raised again', ok, zm, c, witness=U(c)[:60], key=f'partial-bind-torn-down|{binds.index(c)}')
    pre = [n for n in init.body if isinstance(n, ast.Assign) and any('self.metrics_' == U(t) for t in n.targets)]
    first_try = min([n.lineno for n in init.body if isinstance(n, ast.Try)] or [10 ** 9])
    rr.ob('everything MQ.destroy touches exists before the first endpoint is created', bool(pre) and pre[0].lineno < first_try, mod, pre[0] if pre else init, witness=f'self.metrics_ assigned at line {pre[0].lineno if pre else None}, try at {first_try}', key='destroy-usable-early')


@rule('C08.R13', "an obeyed exit keeps its kind on the way out of the message layer: the exit of a neighbour reaches the filter through the out-of-band callback, which raises (Filter.Exit for a clean exit, "
                 "PropagateError - an Exception - for an error exit) from inside recv() / send(). Nothing between the callback and the filter's loop catches it: an `except Exception` around the "
                 "callback swallows exactly the error kind, the stop event is already set, the filter ends 'clean' and tells its own neighbours so")
def r13(rr, repo):
    from ..model import ancestors as _anc
    zm = repo.module(Z)
    calls = [c for c in q.calls_in(zm.tree) if U(c.func) == 'self.message_oob']
    rr.floor('calls of the out-of-band callback in the ZeroMQ layer', len(calls), 2, zm, zm.tree)
    for c in calls:
        fn = enclosing_function(c)
        bad = None
        for t in [a for a in _anc(c) if isinstance(a, ast.Try)]:
            if not any(x is c for st_ in t.body for x in ast.walk(st_)):
                continue
            for h in t.handlers:
                wide = h.type is None or any(U(e) in ('Exception', 'BaseException') for e in (h.type.elts if isinstance(h.type, ast.Tuple) else [h.type]))
                reraises = any(isinstance(x, ast.Raise) and x.exc is None for x in ast.walk(h))
                if wide and not reraises:
                    bad = h
        rr.ob('what the out-of-band callback raises leaves the message layer', bad is None, zm, bad or c, witness=(U(bad.type) if bad is not None and bad.type is not None else 'no handler swallows it') + f' in {qualname(fn)}', key=f'oob-exception-propagates|{qualname(fn)}')


@rule('C08.R14', "exit(reason, exc) ends the run by an error whatever LOOP_EXC says: with LOOP_EXC off the main loop logs an exception of the loop body and carries on - but what exit() raises is not an error "
                 "of the loop body. exit() has set the stop event already, so a handler that logs it lets the loop end with nothing in flight: run() returns normally and the neighbours are told "
                 "'clean'. exit() notes what it raises, and the handler lets exactly that through")
def r14(rr, repo):
    FIL = 'openfilter/filter_runtime/filter.py'
    mod, ex = repo.find(f'{FIL}::Filter.exit')
    _, run = repo.find(f'{FIL}::Filter.run')
    raises = [n for n in walk_scope(ex) if isinstance(n, ast.Raise) and n.exc is not None]
    notes = [n for n in walk_scope(ex) if isinstance(n, ast.Assign) and any(U(t).startswith('self.') for t in n.targets)]
    noted = [n for n in notes if raises and (U(raises[-1].exc) in [U(t) for t in n.targets] or U(n.value) == U(raises[-1].exc))]
    rr.ob('exit() notes what it is about to raise', bool(noted), mod, noted[0] if noted else (raises[-1] if raises else ex), witness=U(noted[0])[:80] if noted else 'nothing stored before the raise', key='exit-notes-what-it-raises')
    attr = [U(t) for n in noted for t in n.targets if U(t).startswith('self.')][:1]
    name = attr[0].split('.', 1)[1] if attr else None
    hs = [h for t in ast.walk(run) if isinstance(t, ast.Try) and any(isinstance(c, ast.Call) and U(c.func).endswith('.loop_once') for st_ in t.body for c in ast.walk(st_)) for h in t.handlers if h.type is not None and U(h.type) == 'loop_exc']
    rr.floor('handlers of the main loop that may log and carry on', len(hs), 1, mod, run)
    for h in hs:
        first = h.body[0] if h.body else None
        ok = name is not None and isinstance(first, ast.If) and name in U(first.test) and h.name is not None and h.name in U(first.test) and any(isinstance(x, ast.Raise) and x.exc is None for x in first.body)
        rr.ob("the handler lets what exit() raised through before it logs anything", ok, mod, first or h, witness=U(first.test)[:140] if isinstance(first, ast.If) else 'the handler starts with something else', key='loop-handler-lets-exit-through')
