"""C01 - no mixed or partial frame sets (necessary structural conditions)."""

from __future__ import annotations

import ast
import re

from . import rule
from .zmq import anchors, Z, MQF, ret_const, stmt_list_containing
from ..model import Unresolved, walk_scope, parent, ancestors
from ..paths import U, Path
from .. import q

RECVD_STORE = re.compile(r'\.recvd(\[|$)')


def _fresh_set_events(za, p: Path):
    """Events that start a *fresh* per-source set: X.new_recv(msg, ...) or X.recvd = X.init_recvd(...)."""
    out = []
    for e in p.events:
        if e.kind == 'call' and e.term.endswith('.new_recv') and (e.args or e.kwargs):
            out.append(e)
        if e.kind == 'store' and re.search(r'\.recvd$', e.term) and 'init_recvd(' in e.args[0]:
            out.append(e)
    return out


def pm_paths(za):
    paths = za.paths('pm')
    return paths, len(paths)


@rule('C01.R1', 'process_msg decision table over (msg id vs expected id): older => return None with no store; newer => '
                'start a fresh set and return a truthy "invalidate the others" signal; equal => no truthy signal')
def r1(rr, repo):
    za = anchors(repo)
    paths, n = pm_paths(za)
    rr.paths += len(paths)
    mid, exp = za.r_mid, za.pm_exp
    seen = set()
    for p in paths:
        rel = q.order(p, mid, exp)
        rels = [rel] if rel in ('<', '=', '>') else ['<', '=', '>']
        isret, isconst, val = ret_const(p)
        for r in rels:
            seen.add(r)
            w = f'{mid} {r} {exp}; path: {p.pc_text()} => {p.outcome_text()}'
            last = p.events[-1].node if p.events else za.R_pm
            if not isret or not isconst:
                rr.unresolved(f'process_msg outcome is not a constant return on a judged path', za.mod, last, witness=w)
                continue
            stores = [e for e in p.events if e.kind in ('store', 'augstore', 'del') and RECVD_STORE.search(e.term)]
            fresh = _fresh_set_events(za, p)
            if r == '<':
                ok = val is None and not stores and not fresh
                rr.ob('older id is discarded: returns None, stores nothing', ok, za.mod, (stores or fresh or [None])[0] and (stores or fresh)[0].node or last,
                      witness=w, key=f'older|{"store" if stores or fresh else "ret"}')
            elif r == '>':
                ok = bool(val) and bool(fresh)
                node = p.events[-1].node if p.events else za.R_pm
                rr.ob('newer id starts a fresh set and returns a truthy signal so the caller drops the other sources\' partial sets',
                      ok, za.mod, node, witness=w,
                      key=f'newer|ret={val!r}|fresh={bool(fresh)}|recvd_none={q.fact(p, "isnone", "sender.recvd")}')
            else:
                ok = val is not None and not val
                rr.ob('equal id accumulates: returns a falsy non-None value (no invalidation of the other sources)', ok,
                      za.mod, last, witness=w, key=f'equal|ret={val!r}')
    rr.floor('orderings of (msg id, expected id) distinguished by process_msg', len(seen), 3, za.mod, za.R_pm)
    rr.samples = [{'path': p.pc_text(), 'outcome': p.outcome_text()} for p in paths[:4]]


def sync_region(za):
    """The statement list of recv_once that handles a message from a *synchronized* source: the one that calls
    process_msg with the shared (nonlocal) expected id rather than the per-source one."""
    calls = [c for c in q.name_calls(za.R_once, za.R_pm.name) if not q.inside(c, za.R_pm)]
    sync = [c for c in calls if c.args and isinstance(c.args[0], ast.Name)]
    eph = [c for c in calls if c.args and isinstance(c.args[0], ast.Attribute)]
    if len(sync) != 1 or len(eph) != 1:
        raise Unresolved(f'{Z}: expected one synchronized and one per-source call of process_msg, found {len(sync)}/{len(eph)}')
    _, lst, _ = stmt_list_containing(sync[0])
    _, elst, _ = stmt_list_containing(eph[0])
    return sync[0], lst, eph[0], elst


@rule('C01.R2', 'synchronized branch of recv_once: when process_msg signals a newer id (and sources are not balanced) every '
                'other non-ephemeral source gets its partial set reset before the expected id is raised; no other guard')
def r2(rr, repo):
    za = anchors(repo)
    call, lst, _, _ = sync_region(za)
    ev = za.ev()
    paths = ev.run(lst, za.start(za.R_once))
    rr.paths += len(paths)
    shared = call.args[0].id
    resterm = U(call)
    n_judged = 0
    for p in paths:
        isnone = p.facts.get(f'isnone({resterm})')
        truthy = p.facts.get(f'truthy({resterm})')
        binds = [e for e in p.events if e.kind == 'bind' and e.term == shared]
        if isnone is True:
            ok = not binds and p.outcome is not None and p.outcome[0] == 'continue'
            rr.ob('a discarded (older) message leaves the expected id untouched and is skipped', ok, za.mod,
                  (binds[0].node if binds else call), witness=p.pc_text(), key='older-skip')
            continue
        bal = p.facts.get('truthy(self.balance)')
        if truthy is True and bal is False:
            # which loop iterations exist on this path
            iters = [v for k, v in p.pc if k.startswith('iterations(')]
            resets = [e for e in p.events if e.kind == 'call' and e.term.endswith('.new_recv') and '__elem__' in e.term and not e.args]
            if iters and iters[0] == 0:
                continue   # no other source at all
            isself = [v for k, v in p.facts.items() if k.startswith('is(') and '__elem__' in k]
            eph = [v for k, v in p.facts.items() if k.startswith('truthy(__elem__') and k.endswith('.ephemeral)')]
            isself = isself[0] if isself else None
            eph = eph[0] if eph else None
            if isself is True or (isself is False and eph is True):
                rr.ob('the receiving source itself and ephemeral sources are not reset', not resets, za.mod,
                      resets[0].node if resets else call, witness=p.pc_text(), key='wrong-reset')
            elif isself is False and eph is False:
                n_judged += 1
                rr.ob('another synchronized source (s is not sender, not ephemeral) is reset with s.new_recv() on every path', bool(resets),
                      za.mod, call, witness=p.pc_text(), key='reset-missing')
            elif resets:
                rr.violated('a source is reset without testing that it is another, non-ephemeral source', za.mod, resets[0].node, witness=p.pc_text(), key='untested-reset')
            else:
                rr.violated('newer id adopted but another source is not reset', za.mod, call, witness=p.pc_text(), key='no-reset')
            if not binds and p.outcome is None:
                rr.violated('expected id is not raised to the adopted id', za.mod, call, witness=p.pc_text(), key='no-adopt')
        if truthy is False and isnone is False:
            resets = [e for e in p.events if e.kind == 'call' and e.term.endswith('.new_recv') and '__elem__' in e.term]
            rr.ob('no reset of other sources when the id is the expected one', not resets, za.mod,
                  resets[0].node if resets else call, witness=p.pc_text(), key='spurious-reset')
        if isnone is not True and not binds and p.outcome is None:
            rr.violated('accepted message does not set the expected id', za.mod, call, witness=p.pc_text(), key='no-bind')
    rr.floor('paths on which another synchronized source must be reset', n_judged, 1, za.mod, call)


@rule('C01.R3', 'a store into an existing partial set (recvd[topic] = msg) happens only when the message id equals the expected id')
def r3(rr, repo):
    za = anchors(repo)
    paths, _ = pm_paths(za)
    rr.paths += len(paths)
    n = 0
    for p in paths:
        for e in p.events:
            if e.kind == 'store' and re.search(r'\.recvd\[', e.term) or (e.kind == 'store' and re.search(r'\]$', e.term) and 'recvd' in e.term):
                n += 1
                rel = q.order(p, za.r_mid, za.pm_exp)
                rr.ob('accumulating store only under id equality', rel == '=', za.mod, e.node,
                      witness=f'{p.pc_text()} => {e!r}', key=f'accumulate|{rel}')
    rr.floor('accumulating stores into a partial set', n, 1, za.mod, za.R_pm)


def _universal_none_free(expr: ast.AST) -> bool | None:
    """True: expr states 'no value is None' universally; False: existential; None: unknown idiom."""
    if isinstance(expr, ast.Call) and isinstance(expr.func, ast.Name) and expr.func.id in ('all', 'any') and expr.args:
        g = expr.args[0]
        if isinstance(g, (ast.GeneratorExp, ast.ListComp)):
            elt = g.elt
            if isinstance(elt, ast.Compare) and len(elt.ops) == 1 and isinstance(elt.comparators[0], ast.Constant) and elt.comparators[0].value is None:
                if isinstance(elt.ops[0], ast.IsNot):
                    return expr.func.id == 'all'
    if isinstance(expr, ast.UnaryOp) and isinstance(expr.op, ast.Not) and isinstance(expr.operand, ast.Call) \
            and isinstance(expr.operand.func, ast.Name) and expr.operand.func.id == 'any' and expr.operand.args:
        g = expr.operand.args[0]
        if isinstance(g, (ast.GeneratorExp, ast.ListComp)) and isinstance(g.elt, ast.Compare) and len(g.elt.ops) == 1 \
                and isinstance(g.elt.ops[0], ast.Is) and isinstance(g.elt.comparators[0], ast.Constant) and g.elt.comparators[0].value is None:
            return True
    if isinstance(expr, ast.Compare) and len(expr.ops) == 1 and isinstance(expr.ops[0], ast.NotIn) \
            and isinstance(expr.left, ast.Constant) and expr.left.value is None:
        return True
    return None


@rule('C01.R4', "completeness is universal: got_all <=> recvd is not None and every value is not None; got == 'all' <=> zero None values")
def r4(rr, repo):
    za = anchors(repo)
    # got_all
    rets = [n for n in walk_scope(za.RS_got_all) if isinstance(n, ast.Return)]
    if len(rets) != 1 or rets[0].value is None:
        rr.unresolved('got_all is not a single return expression', za.mod, za.RS_got_all)
    else:
        v = rets[0].value
        parts = v.values if isinstance(v, ast.BoolOp) and isinstance(v.op, ast.And) else [v]
        exist = [x for x in parts if 'recvd' in U(x) and 'values()' not in U(x)]
        verdict = None
        for x in exist:
            t = x.value if isinstance(x, ast.NamedExpr) else x
            if isinstance(x, ast.Compare) and isinstance(x.ops[0], ast.IsNot) and isinstance(x.comparators[0], ast.Constant) and x.comparators[0].value is None:
                verdict = True
            elif isinstance(x, ast.Call) and U(x.func) == 'isinstance':
                verdict = True
            elif isinstance(x, (ast.Name, ast.NamedExpr, ast.Attribute)) or (isinstance(x, ast.Call) and U(x.func) in ('bool', 'len')):
                verdict = False    # truthiness: an existing but EMPTY set ({} is a complete set for a publisher that sent no topics) would count as missing
        if verdict is None:
            rr.unresolved('got_all: no recognised "a set exists" test on recvd', za.mod, rets[0], key='got_all-notnone')
        else:
            rr.ob('got_all requires a set to exist (recvd is not None) without demanding that it be non-empty', verdict, za.mod, rets[0], witness=U(v)[:120], key='got_all-notnone')
        uni = [(_universal_none_free(x), x) for x in parts if 'values()' in U(x) or ' in ' in U(x)]
        if not uni:
            rr.unresolved('got_all: no recognised completeness idiom over recvd.values()', za.mod, rets[0], key='got_all-idiom')
        for u, x in uni:
            rr.ob('got_all quantifies universally over the expected topics (all(v is not None ...))', u, za.mod, rets[0],
                  witness=U(x), key=f'got_all-universal|{U(x.func) if isinstance(x, ast.Call) else type(x).__name__}')
    # got
    ev = za.ev()
    paths = ev.run(za.RS_got.body)
    rr.paths += len(paths)
    n_all = 0
    for p in paths:
        isret, isconst, val = ret_const(p)
        if not (isret and isconst):
            rr.unresolved("got: non-constant result", za.mod, za.RS_got, witness=p.pc_text())
            continue
        if val == 'all':
            n_all += 1
            notnone = p.facts.get('isnone(self.recvd)') is False
            zero = any((k.startswith('truthy(sum(') and 'is None' in k and v is False) or
                       (k.startswith('eq(') and 'is None' in k and ', 0)' in k and v is True) or
                       (k.startswith('truthy(') and '.count(None)' in k and v is False) for k, v in p.facts.items())
            rr.ob("got == 'all' only when a set exists and the count of missing (None) values is zero", notnone and zero,
                  za.mod, za.RS_got, witness=p.pc_text(), key='got-all')
    rr.floor("paths of got that answer 'all'", n_all, 1, za.mod, za.RS_got)


@rule('C01.R5', "keys of a fresh set come from the publisher's per-message topic list restricted to the subscription; the "
                "publisher lists exactly the topics it publishes")
def r5(rr, repo):
    za = anchors(repo)
    lambdas = [n for n in walk_scope(za.RS_init) if isinstance(n, ast.Assign) and isinstance(n.value, ast.Lambda)
               and any(U(t) == 'self.init_recvd' for t in n.targets)]
    rr.floor('init_recvd lambdas', len(lambdas), 2, za.mod, za.RS_init)
    for a in lambdas:
        lam = a.value
        params = [x.arg for x in lam.args.args]
        body = lam.body
        ok = isinstance(body, ast.DictComp) and len(body.generators) == 1 and len(params) >= 3 \
            and isinstance(body.generators[0].iter, ast.Name) and body.generators[0].iter.id == params[2] \
            and isinstance(body.generators[0].target, ast.Name) and U(body.key) == body.generators[0].target.id
        rr.ob("a fresh set has one key per topic of the message's topic list (iterates its `topics` parameter)", ok, za.mod, a,
              key=f'init_recvd-iter|{len(body.generators[0].ifs) if isinstance(body, ast.DictComp) else "?"}')
        if ok:
            val = body.value
            okv = isinstance(val, ast.IfExp) and U(val.body) == params[0] and isinstance(val.orelse, ast.Constant) and val.orelse.value is None
            rr.ob('only the arriving topic is filled, all others start as None (missing)', okv, za.mod, a, key='init_recvd-none')
    # explicit subscriptions: delete subscribed-but-unpublished keys
    dels = [n for n in walk_scope(za.R_once) if isinstance(n, ast.Delete) and any(isinstance(t, ast.Subscript) and U(t.value) == 'recvd' for t in n.targets)]
    rr.floor('removal of subscribed topics the publisher does not list', len(dels), 1, za.mod, za.R_once)
    for d in dels:
        g = q.guards_of(d)
        txt = ' && '.join(('' if pol else 'not ') + U(t) for t, pol in g)
        ok = any('subscribed_all' in U(t) and ((isinstance(t, ast.BoolOp) and 'not sender.subscribed_all' in U(t)) or not pol) for t, pol in g) \
            and 'set(recvd)' in txt and f'set({za.r_topics})' in txt
        rr.ob('keys removed are exactly set(recvd) - set(topics) of an explicit subscription', ok, za.mod, d, witness=txt, key='diff-delete')
    # publisher side: env['topics'] and the publish loop iterate the same object
    paths = za.paths('maybe')
    rr.paths += len(paths)
    n = 0
    for p in paths:
        envb = [e for e in p.events if e.kind == 'bind' and isinstance(e.value, ast.Dict) and any(q.const_str(k) == 'topics' for k in e.value.keys)]
        if not envb:
            continue
        d = envb[-1].value
        tv = [v for k, v in zip(d.keys, d.values) if q.const_str(k) == 'topics'][0]
        loops = [e for e in p.events if e.kind == 'for' and p.events.index(e) > p.events.index(envb[-1]) and e.term.endswith('.items()')]
        if not loops:
            continue
        n += 1
        it = loops[0].term[:-len('.items()')]
        ok = U(tv) in (f'list({it})', f'[*{it}]', f'list({it}.keys())', f'tuple({it})')
        rr.ob("the envelope's topic list is list(<the dict whose items are published>)", ok, za.mod, envb[-1].node,
              witness=f"topics={U(tv)}; published: for ... in {loops[0].term}", key='env-topics')
    rr.floor('publishing paths whose envelope lists the topics', n, 1, za.mod, za.S_maybe)


def summary_region(za):
    """The 'return True' decision of recv_once: flag initialisation, the loop over sources, the final if."""
    for n in walk_scope(za.R_once):
        if isinstance(n, ast.If) and n.body and isinstance(n.body[-1], ast.Return) and isinstance(n.body[-1].value, ast.Constant) \
                and n.body[-1].value.value is True and not n.orelse:
            par, lst, idx = stmt_list_containing(n)
            j = idx
            while j > 0 and isinstance(lst[j - 1], (ast.For, ast.Assign)) :
                j -= 1
                if isinstance(lst[j], ast.Assign) and not isinstance(lst[j].value, ast.Constant):
                    j += 1
                    break
            return n, lst[j:idx + 1]
    raise Unresolved(f'{Z}: recv_once has no `if ...: return True` completion decision')


@rule('C01.R6', 'recv_once can report a complete set only when every synchronized source is complete and no source is partial')
def r6(rr, repo):
    za = anchors(repo)
    iff, region = summary_region(za)
    loops = [s for s in region if isinstance(s, ast.For)]
    if len(loops) != 1:
        raise Unresolved(f'{Z}: completion decision: expected one loop over the sources, found {len(loops)}')
    ev = za.ev(unroll_for=2)
    paths = ev.run(region, za.start(za.R_once))
    rr.paths += len(paths)
    n = 0
    for p in paths:
        isret, isconst, val = ret_const(p)
        if p.outcome is None or not (isret and isconst and val is True):
            continue
        n += 1
        iters = [e for e in p.events if e.kind == 'for']
        if iters and iters[0].args[0] == 'zero':
            rr.violated('reports a complete set although no source was inspected / nothing was received', za.mod, iff, witness=p.pc_text(), key='empty-true')
            continue
        bal = p.facts.get('truthy(self.balance)')
        for el in ('__elem__(', '__elem2__('):
            got_all = [v for k, v in p.facts.items() if k.startswith('eq(') and "'all'" in k and el in k and '.got' in k]
            got_none = [v for k, v in p.facts.items() if k.startswith('eq(') and "'none'" in k and el in k and '.got' in k]
            eph = [v for k, v in p.facts.items() if k.startswith(f'truthy({el}') and k.endswith('.ephemeral)')]
            if not got_all and not got_none:
                if el == '__elem__(':
                    rr.violated('reports a complete set without looking at the state of the source', za.mod, iff, witness=p.pc_text(), key='true-unlooked')
                continue
            if got_all and got_all[0] is True:
                rr.holds('returns True with the inspected source complete', za.mod, iff, witness=p.pc_text(), key='true-all')
            elif got_none and got_none[0] is True:
                ok = (eph and eph[0] is True) or bal is True
                rr.ob('an empty source is tolerated only if it is ephemeral or the sources are balanced', ok, za.mod, iff, witness=p.pc_text(), key=f'true-none|eph={eph}|bal={bal}')
            else:
                rr.violated('reports a complete set while a source is partial', za.mod, iff, witness=p.pc_text(), key='true-partial')
    # multi-source soundness: flags that must be True at the end are never set True inside the loop and vice versa
    need = {}
    for t, pol in q.conjuncts(iff.test, True):
        if isinstance(t, ast.Name):
            need[t.id] = pol
    for st in ast.walk(loops[0]):
        if isinstance(st, ast.Assign) and len(st.targets) == 1 and isinstance(st.targets[0], ast.Name) and st.targets[0].id in need \
                and isinstance(st.value, ast.Constant):
            name = st.targets[0].id
            if name == 'got_any_complete':
                continue
            rr.ob(f'inside the loop the flag {name} only moves away from the value the positive answer needs (monotone over sources)',
                  bool(st.value.value) != need[name], za.mod, st, key=f'monotone|{name}')
    rr.floor('paths of the completion decision that answer True', n, 1, za.mod, iff)
    completion_converse(rr, za, iff, paths)


def completion_converse(rr, za, iff, paths):
    """The other direction of the completion decision: when every inspected source is complete or tolerably empty (an ephemeral source with nothing; any
    source under balanced sources), at least one is complete and nothing more is waiting, the set IS reported - an idle listener or the other branches of
    a balanced join must not hold it back."""
    k = 0
    for p in paths:
        isret, isconst, val = ret_const(p)
        answered_true = p.outcome is not None and isret and isconst and val is True
        bal = p.facts.get('truthy(self.balance)')
        states = []
        for el in ('__elem__(', '__elem2__('):
            ga = [v for kk, v in p.facts.items() if kk.startswith('eq(') and "'all'" in kk and el in kk and '.got' in kk]
            gn = [v for kk, v in p.facts.items() if kk.startswith('eq(') and "'none'" in kk and el in kk and '.got' in kk]
            eph = [v for kk, v in p.facts.items() if kk.startswith(f'truthy({el}') and kk.endswith('.ephemeral)')]
            if not ga and not gn:
                continue
            if ga and ga[0] is True:
                states.append('all')
            elif gn and gn[0] is True:
                # tolerated for at least one valuation of what the path left untested
                states.append('none-ok' if ((eph and eph[0] is True) or bal is True or (not eph) or bal is None) and not ((eph and eph[0] is False) and bal is False) else 'none-blocks')
            else:
                states.append('partial')
        if not states or 'partial' in states or 'none-blocks' in states or 'all' not in states:
            continue
        if p.facts.get('truthy(self.poller.poll(0))') is True:
            continue
        its = [e for e in p.events if e.kind == 'for']
        k += 1
        rr.ob('a set is reported as soon as every inspected source is complete or tolerably empty (ephemeral with nothing / balanced sources) and one is complete: an idle listener or the other branches of a balanced join do not hold it back',
              answered_true, za.mod, iff, witness=f'{states}: {p.pc_text()[-260:]}', key=f'complete-reported|{"+".join(sorted(set(states)))}')
    rr.floor('completion paths that must answer True', k, 3, za.mod, iff)


@rule('C01.R7', 'message ids are carried input -> output: recv returns the id of the returned set, MQ.recv keeps it as '
                'send_state, MQ.send hands it to the sender when mq_msgid_sync, the sender publishes under it')
def r7(rr, repo):
    za = anchors(repo)
    mqm, mq_recv = repo.find(f'{MQF}::MQ.recv')
    _, mq_send = repo.find(f'{MQF}::MQ.send')
    # hop 1
    rets = [n for n in walk_scope(za.R_recv) if isinstance(n, ast.Return) and isinstance(n.value, ast.Tuple) and len(n.value.elts) == 2]
    rr.floor('recv() returns (data, state)', len(rets), 1, za.mod, za.R_recv)
    for r in rets:
        st = r.value.elts[1]
        ok = isinstance(st, ast.Call) and U(st.func).endswith('ZMQStateSend') and st.args
        _, rlst, _ = stmt_list_containing(r)
        prev = [s for s, t in q.stores_to_attr(za.R_recv, 'prev_id') if isinstance(s, ast.Assign) and s in rlst]
        same = ok and prev and all(U(s.value) == U(st.args[0]) for s in prev)
        rr.ob('the state returned with a set carries the id recorded as last returned (self.prev_id)', bool(same), za.mod, r, key='hop1')
    # hop 2
    ev = za.ev()
    ev.mod = mqm
    ev.consts = {}
    paths = ev.run(mq_recv.body)
    rr.paths += len(paths)
    st2 = [e for p in paths for e in p.events if e.kind == 'store' and e.term == 'self.send_state']
    if not st2:
        rr.violated('MQ.recv does not keep the state returned by receiver.recv() (ids are not carried to the output)', mqm, mq_recv, key='hop2-missing')
    for e in st2:
        ok = bool(re.fullmatch(r'self\.receiver\.recv\(.*\)\[1\]', e.args[0]))
        rr.ob('MQ.recv keeps element 1 of receiver.recv() (the ZMQStateSend) as self.send_state', ok, mqm, e.node, witness=e.args[0], key='hop2')
    # hop 3
    sends = [c for c in q.attr_calls(mq_send, 'send', into_functions=False) if U(c.func) == 'self.sender.send']
    rr.floor('MQ.send calls of self.sender.send', len(sends), 1, mqm, mq_send)
    for c in sends:
        a = c.args[1] if len(c.args) > 1 else q.kwarg(c, 'state')
        ok = a is not None and isinstance(a, ast.IfExp) and U(a.test) == 'self.mq_msgid_sync' and U(a.body) == 'self.send_state'
        rr.ob('MQ.send passes self.send_state as the state when mq_msgid_sync', ok, mqm, c, witness=U(a) if a is not None else 'no state argument', key='hop3')
    # hop 4
    ev = za.ev()
    head = [s for s in za.S_send.body if not isinstance(s, (ast.FunctionDef,))]
    hp = ev.run(za.S_send.body[:next(i for i, s in enumerate(za.S_send.body) if isinstance(s, ast.FunctionDef))])
    param = q.func_params(za.S_send)[2]
    okp = False
    idname = None
    for p in hp:
        if p.outcome is None and p.facts.get(f'isnone({param})') is False:
            for name, term in p.env.items():
                if isinstance(term, ast.AST) and U(term) == f'{param}.msg_id':
                    okp, idname = True, name
    rr.ob('ZMQSender.send takes the id to publish from state.msg_id when a state is given', okp, za.mod, za.S_send, key='hop4a')
    dicts = [n for n in walk_scope(za.S_maybe) if isinstance(n, ast.Dict) and any(q.const_str(k) == 'mid' for k in n.keys) and any(q.const_str(k) == 'topics' for k in n.keys)]
    rr.floor('data envelope literal in send_maybe', len(dicts), 1, za.mod, za.S_maybe)
    for d in dicts:
        v = [v for k, v in zip(d.keys, d.values) if q.const_str(k) == 'mid'][0]
        rr.ob("the data envelope's 'mid' is that id", idname is not None and U(v) == idname, za.mod, d, witness=U(d), key='hop4b')


@rule('C01.R8', "a source's per-id set is always a fresh object: Sender.new_recv stores a copy / a new dict / None, never the subscription template itself, and the template maps every subscribed source topic to None")
def r8(rr, repo):
    za = anchors(repo)
    ev = za.ev()
    ps = ev.run(za.RS_new_recv.body)
    rr.paths += len(ps)
    n = 0
    for p in ps:
        st = [e for e in p.events if e.kind == 'store' and e.term == 'self.recvd']
        if not st:
            rr.violated('new_recv ends without replacing the per-id set', za.mod, za.RS_new_recv, witness=p.pc_text(), key='no-store')
            continue
        n += 1
        v = st[-1].value
        t = U(v)
        fresh = (isinstance(v, ast.Constant) and v.value is None) or t.endswith('.copy()') or isinstance(v, (ast.Dict, ast.DictComp)) or t.startswith('self.init_recvd(') or t.startswith('dict(')
        rr.ob('the set stored for the new id is a fresh object (copy / display / init_recvd result / None)', fresh, za.mod, st[-1].node, witness=f'{p.pc_text()} => self.recvd = {t[:80]}', key=f'fresh|{t[:40]}')
        if isinstance(v, ast.Dict):
            # {**template, topic: msg}: only the arriving topic is filled
            ok = len(v.keys) == 2 and v.keys[0] is None and U(v.values[0]) == 'self.recvd_new'
            rr.ob('an explicit subscription starts from the template and fills only the arriving topic', ok, za.mod, st[-1].node, witness=t[:100], key='explicit-start')
    rr.floor('paths of Sender.new_recv', n, 4, za.mod, za.RS_new_recv)
    tmpl = [e for p in za.paths('rs_init') for e in p.events if e.kind == 'store' and e.term == 'self.recvd_new' and isinstance(e.value, ast.DictComp)]
    rr.floor('subscription templates built in Sender.__init__', len(tmpl), 1, za.mod, za.RS_init)
    for e in tmpl[:1]:
        v = e.value
        ok = isinstance(v.value, ast.Constant) and v.value.value is None and U(v.generators[0].iter).startswith('topics')
        rr.ob('the template has one key per subscribed source topic, all missing (None)', ok, za.mod, e.node, witness=U(v)[:100], key='template')


@rule('C01.R9', 'the expected id and the partial sets it belongs to leave recv() together: an exit that keeps the per-source sets for the next call (timeout) also records the id adopted during the call, '
                'so the next call cannot accept an older id into a set of the newer one')
def r9(rr, repo):
    za = anchors(repo)
    from .c04 import recv_loop_paths
    loop, paths = recv_loop_paths(za)
    rr.paths += len(paths)
    # can the expected id be raised inside a call at all?  (it is, by the synchronized branch of recv_once)
    sync, slst, _, _ = sync_region(za)
    shared = sync.args[0].id
    raised = [n for n in ast.walk(za.R_once) if isinstance(n, ast.Assign) and any(isinstance(t, ast.Name) and t.id == shared for t in n.targets)]
    rr.floor('sites that raise the expected id inside a call', len(raised), 1, za.mod, za.R_once)
    n = 0
    for p in paths:
        o = p.outcome
        if o is None or o[0] != 'return':
            continue
        gives_up = o[1] is None or (isinstance(o[1], ast.Constant) and o[1].value is None)
        if not gives_up:
            continue
        n += 1
        rearm = [e for e in p.events if e.kind == 'call' and e.term == 'self.new_recv']
        st = [e for e in p.events if e.kind == 'store' and e.term == 'self.prev_id']
        keeps_id = any(f'{shared} - 1' in e.args[0] for e in st)
        rr.ob('giving up (timeout) either discards the per-source sets or remembers the adopted expected id (prev_id := expected - 1, monotone)', bool(rearm) or keeps_id, za.mod, loop,
              witness=f'{p.pc_text()[-200:]} => return None; stores: {[repr(e)[:70] for e in st]}', key='timeout-keeps-id')
        if keeps_id:
            mono = any(e.args[0].startswith('max(self.prev_id, ') or e.args[0].startswith(f'max({shared} - 1, self.prev_id') for e in st)
            rr.ob('the remembered id can only grow', mono, za.mod, st[-1].node, witness=st[-1].args[0], key='timeout-monotone')
    rr.floor('give-up exits of the wait loop', n, 1, za.mod, loop)
    entry_forms(rr, za, shared)


def entry_forms(rr, za, shared):
    """The expected id at entry of recv(): whatever the caller passes as state (MQ passes the SAME sender state again after a
    call that timed out), it is never below the remembered id + 1."""
    entry = [st for st in za.R_recv.body if isinstance(st, ast.Assign) and any(isinstance(t, ast.Name) and t.id == shared for t in st.targets)]
    if len(entry) != 1:
        raise Unresolved(f'{za.mod.relpath}: recv(): expected one entry binding of the expected id {shared!r}, found {len(entry)}')

    def leaves(v):
        if isinstance(v, ast.IfExp):
            yield from leaves(v.body)
            yield from leaves(v.orelse)
        else:
            yield v
    params = q.func_params(za.R_recv)
    k = 0
    for leaf in leaves(entry[0].value):
        txt = U(leaf)
        floor_term = 'self.prev_id + 1' in txt or '1 + self.prev_id' in txt
        reads_state = len(params) > 1 and any(isinstance(x, ast.Name) and x.id == params[1] for x in ast.walk(leaf))
        k += 1
        if not reads_state and floor_term and not isinstance(leaf, ast.Call):
            rr.holds('entry without caller state: the expected id is the remembered id + 1', za.mod, entry[0], witness=txt, key='entry-own')
        elif reads_state and isinstance(leaf, ast.Call) and U(leaf.func) == 'max' and floor_term and not leaf.keywords:
            rr.holds('entry with caller state: the expected id is max(state id, remembered id + 1)', za.mod, entry[0], witness=txt, key='entry-state')
        elif reads_state and (not floor_term or (isinstance(leaf, ast.Call) and U(leaf.func) == 'min')):
            rr.violated("entry with caller state: the caller's id can put the expected id below the remembered one - after a timed-out call that adopted a newer id (and kept the per-source sets) the same "
                        "state comes in again, an older message is accepted and completes the newer set", za.mod, entry[0], witness=txt, key='entry-state')
        else:
            rr.unresolved('entry binding of the expected id has an unrecognised form', za.mod, entry[0], witness=txt, key='entry-form')
    rr.floor('entry forms of the expected id', k, 2, za.mod, entry[0])
    # the other direction: a caller that comes back with a NEWER id than the one the kept sets belong to (a filter with outputs sent something between a timed-out
    # receive and this one - its sender state moved on) must not have those sets completed by messages of the newer id
    stale = []
    for st in za.R_recv.body:
        if isinstance(st, ast.If) and isinstance(st.test, ast.Compare) and len(st.test.ops) == 1 and isinstance(st.test.ops[0], (ast.Gt, ast.Lt, ast.NotEq, ast.GtE)) and \
                {U(st.test.left), U(st.test.comparators[0])} == {shared, 'self.prev_id + 1'} and any(isinstance(c, ast.Call) and isinstance(c.func, ast.Attribute) and c.func.attr == 'new_recv' for c in ast.walk(st)):
            stale.append(st)
    if not stale:
        rr.violated('recv() keeps the sets of a call that timed out even when it is entered with a newer expected id than they belong to: a source that was complete for the old id stays complete and is '
                    'returned together with the other sources\' frames of the new id', za.mod, entry[0], witness='no `if <expected id> > self.prev_id + 1: <reset the kept sets>` at entry', key='entry-drops-stale-sets')
    for st in stale:
        resets = [c for c in ast.walk(st) if isinstance(c, ast.Call) and isinstance(c.func, ast.Attribute) and c.func.attr == 'new_recv']
        loops = [n_ for n_ in ast.walk(st) if isinstance(n_, ast.For) and U(n_.iter) in ('sendervs', 'senders.values()', 'self.senders.values()')]
        rereg = [c for c in ast.walk(st) if isinstance(c, ast.Call) and isinstance(c.func, ast.Attribute) and c.func.attr == 'register']
        whole = any(U(c.func) == 'self.new_recv' for c in resets)
        rr.ob('at entry with a newer id every synchronized source has its kept set discarded (and a source that was complete is polled again)', whole or (bool(loops) and bool(rereg)), za.mod, st,
              witness=U(st.test), key='entry-drops-stale-sets')


@rule('C01.R10', 'the expected id never moves back while sets of it are held: it is (re)bound only at entry and to the id of a message process_msg accepted, prev_id only grows (shares C02.R2)')
def r10(rr, repo):
    from .c02 import r2 as c02r2
    c02r2(rr, repo)


@rule('C01.R11', "the message that opens or extends a per-id set is kept in it: Sender.new_recv stores the arriving message under its topic (subscribe-all: the set is built from the publisher's topic list; "
                 "explicit: template plus the topic; a topics-only message adds nothing), a reset stores no message, the new set is also returned; process_msg initialises a missing set with the message on an equal id")
def r11(rr, repo):
    za = anchors(repo)
    ev = za.ev()
    ps = ev.run(za.RS_new_recv.body)
    rr.paths += len(ps)
    params = q.func_params(za.RS_new_recv)          # self, msg, topic, topics, poller
    if len(params) < 4:
        raise Unresolved(f'{za.mod.relpath}: Sender.new_recv: unexpected signature {params}')
    P_msg, P_topic, P_topics = params[1], params[2], params[3]
    rows = set()
    for p in ps:
        st = [e for e in p.events if e.kind == 'store' and e.term == 'self.recvd']
        if not st:
            continue
        v = st[-1].value
        t = U(v)
        reset = p.facts.get(f'isnone({P_msg})')
        all_ = p.facts.get('isnone(self.recvd_new)')
        tp = p.facts.get(f'truthy({P_topic})')
        o = p.outcome
        rr.ob('new_recv returns the set it stored (process_msg goes on working with it)', o is not None and o[0] == 'return' and o[1] is not None and U(o[1]) == t, za.mod, st[-1].node, witness=f'stored {t[:60]} returned {p.outcome_text()[:60]}', key='returns-stored')
        if reset is True:
            rows.add('reset')
            ok = (isinstance(v, ast.Constant) and v.value is None) if all_ is True else (t == 'self.recvd_new.copy()' or t == 'dict(self.recvd_new)')
            rr.ob('a reset (no message) leaves an empty set: None for subscribe-all, a copy of the all-missing template otherwise', ok and all_ is not None, za.mod, st[-1].node, witness=f'{p.pc_text()} => {t[:60]}', key=f'reset|all={all_}')
        elif reset is False and all_ is True:
            rows.add('all')
            ok = isinstance(v, ast.Call) and U(v.func) == 'self.init_recvd' and [U(a) for a in v.args] == [P_msg, P_topic, P_topics]
            rr.ob("subscribe-all: the new set is built from the publisher's topic list and holds the arriving message (init_recvd(msg, topic, topics))", ok, za.mod, st[-1].node, witness=t[:100], key='start|all')
        elif reset is False and all_ is False and tp is True:
            rows.add('explicit-topic')
            ok = isinstance(v, ast.Dict) and len(v.keys) == 2 and v.keys[0] is None and U(v.values[0]) == 'self.recvd_new' and U(v.keys[1]) == P_topic and U(v.values[1]) == P_msg
            rr.ob('explicit subscription, data message: the new set is the template plus the arriving message under its topic', ok, za.mod, st[-1].node, witness=t[:100], key='start|explicit-topic')
        elif reset is False and all_ is False and tp is False:
            rows.add('explicit-empty')
            rr.ob('explicit subscription, topics-only message: the new set is an all-missing copy of the template (nothing is stored under the empty topic)', t in ('self.recvd_new.copy()', 'dict(self.recvd_new)'), za.mod, st[-1].node, witness=t[:100], key='start|explicit-empty')
        else:
            rr.unresolved('Sender.new_recv: a path does not decide (message given?, subscribe-all?, data message?)', za.mod, st[-1].node, witness=p.pc_text()[:160], key='new-recv-row')
    rr.ob('Sender.new_recv distinguishes reset / subscribe-all / explicit data message / explicit topics-only', rows >= {'reset', 'all', 'explicit-topic', 'explicit-empty'}, za.mod, za.RS_new_recv, witness=str(sorted(rows)), key='new-recv-rows')
    # init_recvd lambdas: {t: msg if t == topic else None for t in topics [if not hidden]}
    lams = [n for n in ast.walk(za.RS_init) if isinstance(n, ast.Assign) and any(U(t) == 'self.init_recvd' for t in n.targets) and isinstance(n.value, ast.Lambda)]
    rr.floor('init_recvd definitions', len(lams), 2, za.mod, za.RS_init)
    for n in lams:
        lam = n.value
        a = [x.arg for x in lam.args.args]
        b = lam.body
        ok = isinstance(b, ast.DictComp) and len(a) == 3 and len(b.generators) == 1 and U(b.generators[0].iter) == a[2] and isinstance(b.value, ast.IfExp) and U(b.value.body) == a[0] \
            and isinstance(b.value.orelse, ast.Constant) and b.value.orelse.value is None and isinstance(b.value.test, ast.Compare) and isinstance(b.value.test.ops[0], ast.Eq) \
            and {U(b.value.test.left), U(b.value.test.comparators[0])} == {U(b.key), a[1]}
        rr.ob('init_recvd maps every listed topic to missing except the arriving one, which holds the message', ok, za.mod, n, witness=U(lam)[:140], key=f'init-recvd|{len(b.generators[0].ifs) if isinstance(b, ast.DictComp) else "?"}')
    # process_msg, equal id
    pm, _n = pm_paths(za)
    rr.paths += _n
    k = 0
    for p in pm:
        o = p.outcome
        if o is None or o[0] != 'return' or not (isinstance(o[1], ast.Constant) and o[1].value is False):
            continue
        k += 1
        none = [v for kk, v in p.pc if kk.startswith('isnone(') and kk.endswith('.recvd)')]
        tp = p.facts.get(f'truthy({za.r_topic})') if hasattr(za, 'r_topic') else p.facts.get('truthy(topic)')
        stores = [e for e in p.events if e.kind == 'store']
        if none and none[-1] is True:
            st = [e for e in stores if e.term.endswith('.recvd')]
            ok = bool(st) and isinstance(st[-1].value, ast.Call) and U(st[-1].value.func).endswith('.init_recvd') and len(st[-1].value.args) == 3
            rr.ob('equal id, no set yet: the set is created holding this message (sender.recvd = init_recvd(msg, topic, topics))', ok, za.mod, st[-1].node if st else za.R_pm, witness=p.pc_text()[-160:], key='pm-init')
        elif none and none[-1] is False and tp is True:
            st = [e for e in stores if '.recvd[' in e.term or e.term.startswith('recvd[')]
            rr.ob('equal id, set exists, data message: the message is stored under its topic', bool(st), za.mod, st[-1].node if st else za.R_pm, witness=p.pc_text()[-160:], key='pm-store')
        elif none and none[-1] is False and tp is False:
            rr.ob('equal id, set exists, topics-only message: nothing is stored', not [e for e in stores if 'recvd' in e.term], za.mod, za.R_pm, witness=p.pc_text()[-160:], key='pm-nostore')
    rr.floor('equal-id paths of process_msg', k, 3, za.mod, za.R_pm)


@rule('C01.R12', "only topics the publisher does not publish are dropped from a source's set: every removal of a key from the per-id set iterates over (keys of the set) minus (the publisher's topic list of this "
                 "message), and only explicit subscriptions are pruned - a published topic is never removed, a set can still complete when a subscribed topic does not exist upstream")
def r12(rr, repo):
    za = anchors(repo)
    dels = [d for d in walk_scope(za.R_once) if isinstance(d, ast.Delete) and any(isinstance(t, ast.Subscript) and U(t.value) in ('recvd', 'sender.recvd') for t in d.targets)]
    pops = [c for c in q.calls_in(za.R_once, into_functions=False) if isinstance(c.func, ast.Attribute) and c.func.attr in ('pop', 'clear', 'popitem') and U(c.func.value) in ('recvd', 'sender.recvd')]
    rr.floor('removals from the per-id set in recv_once', len(dels) + len(pops), 1, za.mod, za.R_once)
    for c in pops:
        rr.unresolved('a key is removed from the per-id set by a method call the rule does not model', za.mod, c, witness=U(c)[:80], key='prune-form')
    topics_name = 'topics'
    for d in dels:
        key = U(d.targets[0].slice)
        loops = [a for a in ancestors(d) if isinstance(a, ast.For) and U(a.target) == key]
        if not loops:
            rr.violated('a key is removed from the per-id set outside a loop over the keys the publisher does not list', za.mod, d, witness=U(d), key='prune-scope')
            continue
        it = loops[0].iter
        # resolve a name bound by a walrus / assignment in the guards of the loop
        src = it
        if isinstance(it, ast.Name):
            defs = [n for n in ast.walk(za.R_once) if isinstance(n, ast.NamedExpr) and n.target.id == it.id] + \
                   [n for n in ast.walk(za.R_once) if isinstance(n, ast.Assign) and any(isinstance(t, ast.Name) and t.id == it.id for t in n.targets)]
            src = defs[0].value if len(defs) == 1 else None
        def strip(n):
            while isinstance(n, ast.NamedExpr):
                n = n.value
            return n
        ok = False
        why = U(src)[:100] if src is not None else 'ambiguous'
        if src is not None:
            s_ = strip(src)
            if isinstance(s_, ast.BinOp) and isinstance(s_.op, ast.Sub):
                l, r = strip(s_.left), strip(s_.right)
                ok = U(l) in ('set(recvd)', 'recvd.keys()', 'set(recvd.keys())') and U(r) in (f'set({topics_name})', topics_name)
            elif isinstance(s_, ast.Call) and isinstance(s_.func, ast.Attribute) and s_.func.attr == 'difference':
                ok = U(strip(s_.func.value)) in ('set(recvd)',) and s_.args and U(strip(s_.args[0])) in (f'set({topics_name})', topics_name)
        rr.ob("the keys removed are exactly those of the set that the publisher's topic list of this message does not contain (set(recvd) - set(topics))", ok, za.mod, loops[0], witness=why, key='prune-difference')
        g = q.guards_of(loops[0], stop=za.R_once)
        flat = []
        for t, pol in g:
            if pol and isinstance(t, ast.BoolOp) and isinstance(t.op, ast.And):
                flat += [(v, True) for v in t.values]
            else:
                flat.append((t, pol))
        flat = [(t.operand, not pol) if isinstance(t, ast.UnaryOp) and isinstance(t.op, ast.Not) else (t, pol) for t, pol in flat]
        rr.ob('only explicit subscriptions are pruned (a subscribe-all set is built from the topic list itself)', any((not pol) and U(t).endswith('.subscribed_all') for t, pol in flat), za.mod, loops[0],
              witness=' && '.join(('' if pol else 'not ') + U(t)[:40] for t, pol in flat)[:200], key='prune-explicit-only')
        # the topic list is the one of THIS message
        tdef = [n for n in walk_scope(za.R_once) if isinstance(n, ast.Assign) and any(isinstance(t, ast.Name) and t.id == topics_name for t in n.targets)]
        rr.ob("the topic list is taken from this message's envelope", len(tdef) == 1 and "'topics'" in U(tdef[0].value), za.mod, tdef[0] if tdef else loops[0], witness=U(tdef[0].value)[:60] if tdef else '', key='prune-topics-source')


@rule('C01.R13', 'a frame that was overtaken is dropped, never re-sent under a newer id (which would put two different originals into one set at the next join): MQ.send() asks for a retry only after a timeout and '
                 'uses up the id handed over by recv() (shares C02.R7)')
def r13(rr, repo):
    from .c02 import r7 as c02r7
    c02r7(rr, repo)


@rule('C01.R14', "one id names one original frame also across a restart of its source: the data envelope carries, besides the id, something that differs between two incarnations of the publisher (a value drawn "
                 "unconditionally at construction - random, clock, pid), and the receiver compares it with the one it saw before; with nothing but (configured server id, message id, topics) on the wire a restarted "
                 "source's id N cannot be told from the previous incarnation's id N, and a rejoin can put the two into one set")
def r14(rr, repo):
    za = anchors(repo)
    envs = [n for n in walk_scope(za.S_maybe) if isinstance(n, ast.Assign) and isinstance(n.value, ast.Dict) and any(k is not None and q.const_str(k) == 'mid' for k in n.value.keys)]
    rr.floor('data envelopes built by send_maybe', len(envs), 1, za.mod, za.S_maybe)
    aliases = q.outer_aliases(za.S_maybe)
    FRESH = ('rndstr', 'uuid4', 'uuid1', 'time', 'time_ns', 'getpid', 'urandom', 'token_hex', 'randbytes', 'monotonic', 'monotonic_ns', 'perf_counter_ns')
    params = set(q.func_params(za.S_init))
    for env in envs:
        marker, seen = None, []
        for k, v in zip(env.value.keys, env.value.values):
            name = q.const_str(k) if k is not None else None
            if name in (None, 'mid', 'topics'):
                continue
            src = aliases.get(v.id, v) if isinstance(v, ast.Name) else v
            how = 'not an attribute of the sender'
            if isinstance(src, ast.Attribute) and U(src.value) == 'self':
                st = [a for a in ast.walk(za.S_init) if isinstance(a, ast.Assign) and any(U(t) == U(src) for t in a.targets)]
                how = U(st[0].value)[:60] if st else 'not set at construction'
                if len(st) == 1 and isinstance(st[0].value, ast.Call) and (U(st[0].value.func).split('.')[-1] in FRESH) and not ({x.id for x in ast.walk(st[0].value) if isinstance(x, ast.Name)} & params):
                    marker = name
            seen.append(f'{name!r}: {how}')
        compared = False
        if marker is not None:
            compared = any(isinstance(c, ast.Compare) and any(isinstance(x, ast.Subscript) and U(x.value) == za.r_env and q.const_str(x.slice) == marker for x in ast.walk(c)) for c in ast.walk(za.R_once)) or \
                any(isinstance(a, ast.Assign) and isinstance(a.value, ast.Subscript) and U(a.value.value) == za.r_env and q.const_str(a.value.slice) == marker and
                    any(isinstance(c, ast.Compare) and any(isinstance(x, ast.Name) and x.id == U(a.targets[0]) for x in ast.walk(c)) for c in ast.walk(za.R_once)) for a in ast.walk(za.R_once))
        rr.ob('the envelope carries a per-incarnation value and the receiver compares it', marker is not None and compared, za.mod, env,
              witness=f"envelope fields besides 'mid' and 'topics': {'; '.join(seen) or 'none'}" + (f"; marker {marker!r} compared by the receiver: {compared}" if marker else '; none of them differs between two incarnations of a publisher with a configured id'),
              key='no-incarnation-on-the-wire')


@rule('C01.R15', "a set never holds more than the source published under that id: the half set a closing source leaves behind is dropped, it cannot be completed by the next publisher on the address (shares C02.R13)")
def r15(rr, repo):
    from .c02 import r13 as c02r13
    c02r13(rr, repo)


@rule('C01.R16', "a synchronized source stays synchronized whatever its address looks like: the '?' / '??' mark that takes a source out of the id synchronisation (its frames are no longer checked against the shared "
                 "expected id, a newer id elsewhere no longer invalidates its set) is read off the END of the address only - an endpoint name may contain a question mark anywhere else ('ipc://./cam?1')")
def r16(rr, repo):
    za = anchors(repo)
    binds = [n for n in ast.walk(za.RS_init) if (isinstance(n, ast.NamedExpr) and U(n.target) == 'ephemeral') or (isinstance(n, ast.Assign) and U(n.targets[0]) == 'ephemeral')]
    rr.floor('classifications of a source address as ephemeral', len(binds), 1, za.mod, za.RS_init)
    addr = q.func_params(za.RS_init)[2] if len(q.func_params(za.RS_init)) > 2 else 'addr_connect'
    for n in binds:
        calls = [c for c in ast.walk(n.value) if isinstance(c, ast.Call) and isinstance(c.func, ast.Attribute) and U(c.func.value) == addr]
        other = [x for x in ast.walk(n.value) if isinstance(x, ast.Compare) and any(isinstance(o, (ast.In, ast.NotIn)) for o in x.ops) and any(U(c_) == addr for c_ in x.comparators)]
        tail_only = bool(calls) and all(c.func.attr == 'endswith' and c.args and q.const_str(c.args[0]) and set(c.args[0].value) == {'?'} for c in calls) and not other
        anywhere = any(c.func.attr in ('count', 'find', 'index', 'rfind', 'partition', 'split') for c in calls) or bool(other)
        if tail_only or anywhere:
            rr.ob('the ephemeral mark is the trailing "?" / "??" of the address, nothing else in it', tail_only, za.mod, n, witness=U(n.value)[:100], key='ephemeral-mark-is-a-suffix')
        else:
            rr.unresolved('how a source address is classified as ephemeral was not recognised', za.mod, n, witness=U(n.value)[:100], key='ephemeral-mark-is-a-suffix')


@rule('C01.R17', "one id names one published set also when a publish fails half way: the topic messages of a set go out one by one (each encodes its own envelope), and one that can not be built or sent leaves the "
                 "ones before it on the wire under the id - if the id were only used up after the closing message, the next set of the still running publisher would go out under the same id and complete the "
                 "half set at every receiver (frames of two publishes in one set). On every publishing path of send_maybe the id is consumed (min_send_id = id + 1) BEFORE the first data frame goes out")
def r17(rr, repo):
    from .c02 import data_publishes, maybe_paths
    za = anchors(repo)
    n = 0
    for p in maybe_paths(za):
        pubs = data_publishes(p)
        if not pubs:
            continue
        n += 1
        st = [e for e in p.events if e.kind == 'store' and e.term == 'self.min_send_id']
        first = p.events.index(pubs[0])
        rr.ob('the id is used up before the first data frame of the set is handed to a socket', bool(st) and p.events.index(st[0]) < first, za.mod, pubs[0].node,
              witness=f"store at line {st[0].node.lineno if st else '-'}, first data frame at line {pubs[0].node.lineno}", key='id-used-up-before-first-frame')
    rr.floor('publishing paths of send_maybe', n, 1, za.mod, za.S_maybe)


@rule('C01.R18', "what a filter sends descends from the set whose id it is sent under: MQ.recv() hands the state of EVERY set it returns on to the next send (self.send_state takes the state the receiver "
                 "returned with that set, on every path that returns frames). A state kept from an earlier set - one the filter skipped by returning None, or gave up on - labels the frames of the "
                 "next set with the skipped set's id, and a rejoin completes the other branch's set of that id with them")
def r18(rr, repo):
    from ..paths import Evaluator
    mqm, mq_recv = repo.find(f'{MQF}::MQ.recv')
    n = 0
    for p in Evaluator(repo, mqm).run(mq_recv.body):
        got = [v for k, v in p.pc if k.startswith('isnone(self.receiver.recv(')]
        if not got or got[0] is not False:
            continue
        if p.outcome is not None and p.outcome[0] == 'raise':
            continue
        n += 1
        st = [e for e in p.events if e.kind == 'store' and e.term == 'self.send_state']
        ok = bool(st) and 'self.receiver.recv(' in st[-1].args[0] and st[-1].args[0].rstrip().endswith('[1]')
        rr.ob('the state returned with the set becomes the state of the next send, whatever state was left over', ok, mqm, st[-1].node if st else mq_recv,
              witness=(st[-1].args[0][-80:] if st else 'no store to self.send_state on this path') + ' | ' + p.pc_text()[-160:], key='send-state-taken-from-every-set')
    rr.floor('paths of MQ.recv that return a set', n, 1, mqm, mq_recv)


@rule('C01.R19', "the three states of a source's set mean what the receive loop takes them to mean: `Sender.got` is 'none' for no set or a set with no frame yet, 'all' when no subscribed topic is missing, 'some' "
                 "otherwise - decided by evaluating the property's own expression on the four shapes a set can have (no set, nothing received, partly received, complete). Every decision of recv() that "
                 "keeps a half set, waits for its rest or hands a set out rests on these three words")
def r19(rr, repo):
    from ..peval import PEval, Obj, Sym, Lit, Dct, Undecided, Raised
    za = anchors(repo)
    got = za.RS_got
    rets = [n for n in walk_scope(got) if isinstance(n, ast.Return) and n.value is not None]
    if len(rets) != 1 or any(isinstance(s, (ast.Assign, ast.AugAssign, ast.For, ast.While)) for s in walk_scope(got)):      # (log lines next to the return do not matter)
        rr.unresolved('Sender.got is no longer one return expression over the set', za.mod, got, key='got-table')
        return
    X, Y = Sym('frame_a', nn=True), Sym('frame_b', nn=True)
    cases = [('no set', Lit(None), 'none'), ('nothing received', Dct({'a': Lit(None), 'b': Lit(None)}), 'none'), ('partly received', Dct({'a': X, 'b': Lit(None)}), 'some'),
             ('partly received (other topic)', Dct({'a': Lit(None), 'b': Y}), 'some'), ('complete', Dct({'a': X, 'b': Y}), 'all'), ('complete, one topic', Dct({'a': X}), 'all')]
    for label, recvd, want in cases:
        try:
            v = PEval({'self': Obj({'recvd': recvd}, 'self')}).ev(rets[0].value)
        except (Undecided, Raised) as exc:
            rr.unresolved(f'Sender.got could not be evaluated for a set that is {label}', za.mod, rets[0], witness=str(exc)[:100], key=f'got-table|{label}')
            continue
        rr.ob(f"Sender.got answers {want!r} for a set that is {label}", isinstance(v, Lit) and v.v == want, za.mod, rets[0], witness=f'recvd = {recvd!r} -> {v!r}', key=f'got-table|{label}')
