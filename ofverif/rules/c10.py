"""C10 - frame views never stale, never aliased: per-accessor invariants of frame.py (necessary structural conditions)."""

from __future__ import annotations

import ast
import re

from . import rule
from ..model import Unresolved, walk_scope, parent, enclosing_function, qualname, Module
from ..paths import U, Path, Evaluator
from .. import q

FR = 'openfilter/filter_runtime/frame.py'
CACHES = ('_Frame__ro_rgb', '_Frame__ro_bgr', '_Frame__ro_gray', '_Frame__jpg')
OWN_IMAGE = ('self.image', 'self._Frame__image')


def accessor(repo, name):
    return repo.find(f'{FR}::Frame.{name}')


def acc_paths(repo, name):
    cache = repo.__dict__.setdefault('_c10', {})
    if name not in cache:
        mod, fn = accessor(repo, name)
        cls = repo.find(f'{FR}::Frame')[1]
        ev = Evaluator(repo, mod, cls_ctx=cls)
        ev.scope_node = fn
        cache[name] = (mod, fn, ev.run(fn.body))
    return cache[name]


def writable_fact(pc):
    """truthiness of `<own image>.flags.writeable` in a path-condition prefix: True / False / None; the jpg-only
    marker (image is False) counts as not writable."""
    res = None
    for k, v in pc:
        for img in OWN_IMAGE:
            if k == f'truthy({img}.flags.writeable)':
                res = v
            if k in (f'is(False, {img})', f'is({img}, False)') and v is True:
                res = False
    return res


@rule('C10.R1', 'cache stores need an immutable source: every store of a derived view / encoding into __ro_rgb, __ro_bgr, __ro_gray, __jpg '
                'happens only where the frame\'s own image is known read-only')
def r1(rr, repo):
    sites = set()
    for name in ('rgb', 'bgr', 'gray', 'jpg', 'ro_rgb', 'ro_bgr'):
        mod, fn, paths = acc_paths(repo, name)
        rr.paths += len(paths)
        for p in paths:
            for e in p.events:
                if e.kind == 'store' and e.term.startswith('self.') and e.term[5:] in CACHES:
                    sites.add((name, e.term))
                    w = writable_fact(p.pc[:e.pc_len])
                    rr.ob(f'Frame.{name}: the cache {e.term[12:]} is filled only from an image that can no longer change (not image.flags.writeable)',
                          w is False, mod, e.node, witness=p.pc_text(e.pc_len) or 'unconditional', key=f'cache|{name}|{e.term}|writable={w}')
    rr.floor('cache-filling accessors', len(sites), 6)
    # no other function of the module fills the caches from pixels
    mod = repo.module(FR)
    for attr in ('__ro_rgb', '__ro_bgr', '__ro_gray'):
        for st, tgt in q.stores_to_attr(mod.tree, attr):
            fn = enclosing_function(st)
            rr.ob(f'{attr} is written only by its accessors', fn is not None and fn.name in ('rgb', 'bgr', 'gray', 'ro_rgb', 'ro_bgr'), mod, st, key=f'cache-writer|{attr}|{qualname(st)}')


    # ... and the cached JPEG is attached to a frame at the places whose conditions the rules of this property judge, nowhere else: the constructor (None / False / the JPEG of the frame it is built
    # from - C10.R8), from_blob (the blob itself - C10.R2), the `jpg` accessor (above), unreduce (C10.R7). A store anywhere else - a writable copy that is handed the JPEG of the frame it was
    # copied from - puts an encoding next to pixels that can still change
    JPG_WRITERS = {'__init__': 'C10.R8', 'from_blob': 'C10.R2', 'jpg': 'C10.R1', 'unreduce': 'C10.R7'}
    n = 0
    for st, tgt in q.stores_to_attr(mod.tree, '__jpg'):
        fn = enclosing_function(st)
        n += 1
        rr.ob('the cached JPEG is stored only by the constructor, from_blob, the jpg accessor and unreduce', fn is not None and fn.name in JPG_WRITERS, mod, st,
              witness=f'{U(st)[:80]} in {fn.name if fn else "module"}', key=f'jpg-writer|{fn.name if fn else "module"}|{U(tgt)[:30]}')
    rr.floor('stores of the cached JPEG', n, 5, mod, mod.tree)
    reflect = [c for c in q.calls_in(mod.tree) if U(c.func) == 'setattr' and len(c.args) >= 2 and any(x in U(c.args[1]) for x in ('__jpg', '__ro_', '__image'))] + \
              [n_ for n_ in ast.walk(mod.tree) if isinstance(n_, ast.Assign) and any(isinstance(t, ast.Subscript) and U(t.value).endswith('__dict__') for t in n_.targets)]
    rr.ob('no cache is written by reflection (setattr / __dict__)', not reflect, mod, reflect[0] if reflect else mod.tree, witness=U(reflect[0])[:80] if reflect else '', key='cache-no-reflection')


@rule('C10.R2', 'a JPEG is attached only to pixels that can no longer change: eager decode in from_blob and lazy decode in .image freeze the array')
def r2(rr, repo):
    mod, fn, paths = acc_paths(repo, 'from_blob')
    rr.paths += len(paths)
    n = 0
    for p in paths:
        isjpg = [v for k, v in p.pc if k.startswith('eq(') and "b'\\xff\\xd8'" in k]
        dec = [e for e in p.events if e.kind == 'store' and e.term.endswith('._Frame__image') and 'decode(' in e.args[0]]
        if dec and (not isjpg or isjpg[0] is True):   # a path that never tests the magic covers jpg blobs too
            n += 1
            fz = [e for e in p.events if e.kind == 'store' and e.term.endswith('.flags.writeable') and e.args[0] == 'False' and e.term.startswith(dec[0].args[0])]
            rr.ob('from_blob: an eagerly decoded image that keeps its jpg is made read-only', bool(fz), mod, dec[0].node, witness=p.pc_text(), key='from_blob-freeze')
        jst = [e for e in p.events if e.kind == 'store' and e.term.endswith('._Frame__jpg')]
        for e in jst:
            v = e.value
            if isinstance(v, ast.IfExp):
                ok = "b'\\xff\\xd8'" in U(v.test) and isinstance(v.orelse, ast.Constant) and v.orelse.value is False
                rr.ob('from_blob: the blob is kept as the jpg cache only if it starts with the JPEG magic, else False', ok, mod, e.node, witness=U(v), key='from_blob-nonjpg')
            elif isjpg and isjpg[0] is False:
                rr.ob('from_blob: a blob that is not a jpg is not kept as the jpg cache', e.args[0] == 'False', mod, e.node, witness=e.args[0], key='from_blob-nonjpg')
    rr.floor('eager-decode paths of from_blob that keep the jpg', n, 1, mod, fn)
    mod, fn, paths = acc_paths(repo, 'image')
    rr.paths += len(paths)
    k = 0
    for p in paths:
        lazy = p.facts.get('is(False, self._Frame__image)')
        if lazy is True:
            k += 1
            fz = [e for e in p.events if e.kind == 'store' and e.term.endswith('.flags.writeable') and e.args[0] == 'False']
            st = [e for e in p.events if e.kind == 'store' and e.term == 'self._Frame__image']
            rr.ob('.image: the lazily decoded array is stored and frozen before it is returned', bool(fz) and bool(st), mod, fn, witness=p.pc_text(), key='image-freeze')
    rr.floor('lazy-decode paths of .image', k, 1, mod, fn)


def frame_constructions(p: Path):
    return [e for e in p.events if e.kind == 'call' and e.term == 'Frame' and len(e.args) >= 2 and e.args[1] == 'self']


def fresh_root(arg: str) -> bool:
    return arg.endswith('.copy()') or arg.startswith('cv2.cvtColor(')


@rule('C10.R3', 'promised copies are fresh: in rw, ro, rw_rgb, rw_bgr, ro_rgb, ro_bgr every Frame(x, self, ...) returned instead of self has x rooted in .copy() or cv2.cvtColor(...)')
def r3(rr, repo):
    nodes = set()
    for name in ('rw', 'ro', 'rw_rgb', 'rw_bgr', 'ro_rgb', 'ro_bgr'):
        mod, fn, paths = acc_paths(repo, name)
        rr.paths += len(paths)
        for p in paths:
            for e in frame_constructions(p):
                nodes.add(id(e.node))
                rr.ob(f'Frame.{name}: the new Frame is built on a fresh array (copy / colour conversion), never on the source array or a view of it',
                      fresh_root(e.args[0]), mod, e.node, witness=e.args[0][:120], key=f'fresh|{name}|{e.raw[:80]}')
            # what is returned is self, a cached frame, or one of the new frames
            o = p.outcome
            if o and o[0] == 'return' and o[1] is not None:
                t = U(o[1])
                ok = t == 'self' or t.startswith('Frame(') or t.startswith('getattr(self,')
                rr.ob(f'Frame.{name} returns self, a cached view or a newly built Frame', ok, mod, fn, witness=t[:120], key=f'ret|{name}|{t[:40]}')
    rr.floor('Frame(x, self, ...) constructions in the copying accessors', len(nodes), 10)


_CONTROL = "def f(a):\n    a.flags.writeable = True\n    a.setflags(write=True)\n    a.flags.writeable = False\n"


def writeable_lifts(tree):
    out = []
    for n in ast.walk(tree):
        if isinstance(n, ast.Assign):
            for t in n.targets:
                if isinstance(t, ast.Attribute) and t.attr == 'writeable' and not (isinstance(n.value, ast.Constant) and n.value.value is False):
                    out.append(n)
        elif isinstance(n, ast.Call) and isinstance(n.func, ast.Attribute) and n.func.attr == 'setflags':
            w = q.kwarg(n, 'write')
            if w is None and n.args:
                w = n.args[0]
            if w is not None and not (isinstance(w, ast.Constant) and not w.value):
                out.append(n)
    return out


@rule('C10.R4', 'read-only is never lifted in place: no `x.flags.writeable = <not False>` / setflags(write=True) anywhere, except Frame.unreduce restoring a pickled flag on its private array')
def r4(rr, repo):
    rr.ob('positive control: the detector finds both lifting forms in the embedded example', len(writeable_lifts(ast.parse(_CONTROL))) == 2, key='control')
    n = 0
    for mod in repo.modules.values():
        n += 1
        for st in writeable_lifts(mod.tree):
            fn = enclosing_function(st)
            if mod.relpath == FR and fn is not None and fn.name == 'unreduce':
                rr.holds('Frame.unreduce restores the pickled writability of a freshly unpickled private array (whitelisted by name)', mod, st, key='unreduce')
            else:
                rr.violated('a numpy array is made writable in place', mod, st, key=f'lift|{mod.relpath}|{qualname(st)}')
    rr.floor('modules scanned', n, 30)


@rule('C10.R5', 'converted / copied read-only views are frozen before they are returned or cached')
def r5(rr, repo):
    n = 0
    for name in ('rgb', 'bgr', 'gray', 'ro', 'ro_rgb', 'ro_bgr'):
        mod, fn, paths = acc_paths(repo, name)
        for p in paths:
            cons = frame_constructions(p)
            if not cons:
                continue
            ro_promised = name.startswith('ro') or writable_fact(p.pc) is False
            if not ro_promised:
                continue
            n += 1
            e = cons[-1]
            fz = [s for s in p.events if s.kind == 'store' and s.term == f'{e.args[0]}.flags.writeable' and s.args[0] == 'False']
            rr.ob(f'Frame.{name}: the array of the new read-only view is frozen (flags.writeable = False) on this path', bool(fz), mod, e.node,
                  witness=p.pc_text() or 'unconditional', key=f'freeze|{name}|{e.raw[:60]}')
    rr.floor('paths building a read-only view', n, 6)


@rule('C10.R6', 'conversion table: RGB<->BGR is a pure channel swap, gray uses the code of the source format, the label matches the accessor, copy() duplicates pixels iff writable')
def r6(rr, repo):
    n = 0
    for name, fmt in (('rgb', 'RGB'), ('bgr', 'BGR'), ('rw_rgb', 'RGB'), ('rw_bgr', 'BGR'), ('ro_rgb', 'RGB'), ('ro_bgr', 'BGR'), ('gray', 'GRAY')):
        mod, fn, paths = acc_paths(repo, name)
        for p in paths:
            for e in frame_constructions(p):
                n += 1
                lab = e.args[2] if len(e.args) > 2 else None
                rr.ob(f'Frame.{name}: the new frame is labelled {fmt!r}', lab is not None and lab.strip('\'"') == fmt, mod, e.node, witness=str(lab), key=f'label|{name}|{lab}')
                m = re.match(r'cv2\.cvtColor\((.*), (cv2\.COLOR_\w+|cv2\.COLOR_\w+ if .* else cv2\.COLOR_\w+)\)$', e.args[0], re.S)
                if e.args[0].startswith('cv2.cvtColor('):
                    if not m:
                        rr.unresolved('conversion code not recognised', mod, e.node, witness=e.args[0][:160], key=f'code-shape|{name}')
                        continue
                    code = m.group(2)
                    if fmt in ('RGB', 'BGR'):
                        rr.ob('RGB<->BGR conversion uses a pure channel-swap code', code in ('cv2.COLOR_RGB2BGR', 'cv2.COLOR_BGR2RGB'), mod, e.node, witness=code, key=f'code|{name}|{code}')
                    else:
                        ok = bool(re.fullmatch(r"cv2\.COLOR_RGB2GRAY if self\._Frame__shapef\[1\] == 'RGB' else cv2\.COLOR_BGR2GRAY", code)) or \
                            bool(re.fullmatch(r"cv2\.COLOR_BGR2GRAY if self\._Frame__shapef\[1\] == 'BGR' else cv2\.COLOR_RGB2GRAY", code))
                        rr.ob("gray picks COLOR_RGB2GRAY iff the source format is 'RGB' (else COLOR_BGR2GRAY)", ok, mod, e.node, witness=code, key=f'code|gray|{code[:60]}')
                    src = m.group(1)
                    rr.ob('the conversion reads the frame\'s own image', src in OWN_IMAGE, mod, e.node, witness=src, key=f'src|{name}|{src}')
    rr.floor('labelled constructions', n, 8)
    mod, fn, paths = acc_paths(repo, 'copy')
    k = 0
    for p in paths:
        st = [e for e in p.events if e.kind == 'store' and e.term.endswith('._Frame__image')]
        wr = p.facts.get('truthy(self._Frame__image.flags.writeable)')
        isarr = p.facts.get('truthy(isinstance(self._Frame__image, ndarray))')
        if isarr is True and wr is True:
            k += 1
            rr.ob('copy(): a writable image is duplicated (image.copy())', bool(st) and st[-1].args[0] == 'self._Frame__image.copy()', mod, fn, witness=p.pc_text(), key='copy-dup')
        elif st:
            rr.ob('copy(): a read-only or absent image is shared, not duplicated', False, mod, st[0].node, witness=p.pc_text(), key='copy-nodup')
    rr.floor('copy() paths with a writable image', k, 1, mod, fn)


@rule('C10.R7', 'a pickle round trip carries the frame state field by field: __reduce__ hands (image, data, jpg, shapef, writeable) read from the private fields to unreduce, which stores each back unchanged (no re-derivation of pixels from the jpg or vice versa)')
def r7(rr, repo):
    mod, red = repo.find(f'{FR}::Frame.__reduce__')
    _, unr = repo.find(f'{FR}::Frame.unreduce')
    cls = repo.find(f'{FR}::Frame')[1]
    rets = [n for n in walk_scope(red) if isinstance(n, ast.Return)]
    if not rets:
        rr.unresolved('__reduce__ has no return', mod, red, key='reduce-shape')
        return
    ev = Evaluator(repo, mod, cls_ctx=cls)
    ps = ev.run(red.body)
    params = q.func_params(unr)
    want = {'image': 'self._Frame__image', 'data': 'self._Frame__data', 'jpg': 'self._Frame__jpg', 'shapef': 'self._Frame__shapef'}
    for p in ps:
        o = p.outcome
        if o is None or o[0] != 'return' or not isinstance(o[1], ast.Tuple) or len(o[1].elts) != 2:
            rr.unresolved('__reduce__ path that does not return (callable, args-tuple)', mod, red, witness=p.outcome_text()[:100], key='reduce-shape')
            continue
        rr.ob('__reduce__ names Frame.unreduce as the reconstructor', U(o[1].elts[0]) in ('Frame.unreduce', 'self.unreduce'), mod, rets[0], key='reduce-callable')
        sent = o[1].elts[1].elts if isinstance(o[1].elts[1], ast.Tuple) else []
        rr.ob('__reduce__ passes as many values as unreduce takes', len(sent) == len(params), mod, rets[0], witness=f'{len(sent)} vs {params}', key='reduce-arity')
        for name, term in zip(params, sent):
            if name in want:
                rr.ob(f'the pickled `{name}` is the private field itself, on every path (not dropped, not re-derived)', U(term) == want[name], mod, rets[0], witness=f'{p.pc_text() or "unconditional"}: {name} = {U(term)[:80]}', key=f'reduce-field|{name}|{U(term)[:40]}')
    ev2 = Evaluator(repo, mod, cls_ctx=cls)
    ps2 = ev2.run(unr.body)
    n = 0
    for p in ps2:
        for name in want:
            st = [e for e in p.events if e.kind == 'store' and e.term.endswith(f'._Frame__{name}')]
            if name in params:
                n += 1
                rr.ob(f'unreduce stores the pickled `{name}` unchanged, once', len(st) == 1 and st[0].args[0] == name, mod, st[0].node if st else unr,
                      witness=str([s.args[0][:60] for s in st]), key=f'unreduce-field|{name}|{[s.args[0][:30] for s in st]}')
    rr.floor('field stores examined in unreduce', n, 4, mod, unr)


@rule('C10.R8', 'a Frame is born consistent: built on an array it holds that array, the shape of that array and NO encoding (a JPEG is never inherited together with new pixels); built from another Frame it takes '
                'pixels, encoding and shape from that one frame together; built from a dict it has no image at all; every completed construction sets all four private fields')
def r8(rr, repo):
    mod, fn, paths = acc_paths(repo, '__init__')
    rr.paths += len(paths)
    params = q.func_params(fn)     # self, image, data, format
    P_img = params[1]
    rows = set()
    for p in paths:
        if p.outcome is not None and p.outcome[0] == 'raise':
            continue
        st = {}
        for e in p.events:
            if e.kind == 'store' and e.term.startswith('self._Frame__'):
                st[e.term[len('self._Frame__'):]] = e
        miss = {'image', 'data', 'jpg', 'shapef'} - set(st)
        rr.ob('every completed construction sets image, data, jpg and shapef', not miss, mod, fn, witness=f'missing {sorted(miss)}: {p.pc_text()[:120]}', key='init-complete')
        if miss:
            continue
        isdict = p.facts.get(f'truthy(isinstance({P_img}, dict))')
        isframe = p.facts.get(f'truthy(isinstance({P_img}, Frame))')
        img, jpg, shp = st['image'].args[0], st['jpg'].args[0], st['shapef'].args[0]
        if isdict is True:
            rows.add('dict')
            rr.ob('from a dict: no image, no encoding, no shape; the dict is the data', (img, jpg, shp) == ('None', 'None', 'None') and st['data'].args[0] == P_img, mod, st['image'].node, witness=f'{img}, {jpg}, {shp}', key='init-dict')
        elif isframe is True:
            rows.add('frame')
            ok = img == f'{P_img}._Frame__image' and jpg == f'{P_img}._Frame__jpg' and (shp == f'{P_img}._Frame__shapef' or shp.startswith(f'({P_img}._Frame__shapef[0], '))
            rr.ob('from a Frame: pixels, encoding and pixel shape all come from that same frame (only the format label may be re-declared)', ok, mod, st['image'].node, witness=f'{img} | {jpg} | {shp[:60]}', key='init-frame')
        elif isdict is False and isframe is False:
            none = p.facts.get(f'isnone({P_img})')
            if none is True:
                rows.add('none')
                rr.ob('without an image: no encoding and no shape', (img, jpg, shp) == (P_img, 'None', 'None'), mod, st['image'].node, witness=f'{img}, {jpg}, {shp}', key='init-none')
            elif none is False:
                rows.add('array')
                rr.ob('on an array: the frame holds that very array and has NO encoding yet (jpg = False), whatever frame the data or format came from', img == P_img and jpg == 'False', mod, st['jpg'].node,
                      witness=f'image={img} jpg={jpg}', key='init-array-no-jpg')
                two = [v for k, v in p.pc if k in (f'eq(2, len({P_img}.shape))', f'eq(len({P_img}.shape), 2)')]
                if two and two[-1] is True:
                    rr.ob("a 2-D array is a GRAY frame of that array's shape", shp == f"({P_img}.shape, 'GRAY')", mod, st['shapef'].node, witness=shp, key='init-gray')
                elif two and two[-1] is False:
                    three = [v for k, v in p.pc if k in (f'eq(3, {P_img}.shape[2])', f'eq({P_img}.shape[2], 3)')]
                    rr.ob("a colour frame is a 3-D array with exactly 3 channels, labelled with a validated format, shaped as the array", bool(three) and three[-1] is True and shp.startswith(f'({P_img}.shape, Frame.validate_format'),
                          mod, st['shapef'].node, witness=shp[:80], key='init-colour')
                else:
                    rr.violated('an array frame is given a shape without looking at the number of dimensions of the array', mod, st['shapef'].node, witness=shp[:80], key='init-dims-untested')
        else:
            rr.unresolved('Frame.__init__: a path does not decide what kind of source it was given', mod, fn, witness=p.pc_text()[:120], key='init-row')
    rr.ob('Frame.__init__ distinguishes dict / Frame / no image / array sources', rows >= {'dict', 'frame', 'none', 'array'}, mod, fn, witness=str(sorted(rows)), key='init-rows')
    # the label says what the pixels are: a 3-channel array is never labelled GRAY (the label may be inherited from the Frame passed as data), and relabelling an existing
    # frame never crosses between GRAY and colour (it does not convert pixels) - both are refused; `.gray` of such a frame would hand out colour pixels as the GRAY view
    nlab = 0
    for p in paths:
        if p.outcome is not None and p.outcome[0] == 'raise':
            continue
        lab = [e for e in p.events if e.kind == 'store' and e.term == 'self._Frame__shapef' and e.args[0].startswith(f'({P_img}.shape, ') and "'GRAY'" not in e.args[0]]
        if not lab:
            continue
        nlab += 1
        not_gray = any(k.startswith('eq(') and "'GRAY'" in k and 'format' in k and v is False for k, v in p.pc)
        rr.ob('a 3-channel array is labelled only after GRAY has been ruled out for the label', not_gray, mod, lab[0].node, witness=p.pc_text()[-200:], key='colour-never-labelled-gray')
    rr.floor('construction paths that label a 3-channel array', nlab, 1, mod, fn)
    # relabelling: on every path that completes with a re-declared label L, the path condition says that (L is GRAY) <=> (the pixels are 2-D) - tested on the label that
    # is actually stored (a Frame may be passed as `format`; the label is what validate_format_or_Frame makes of it), not on the raw argument
    nrel = 0
    for p in paths:
        if p.outcome is not None and p.outcome[0] == 'raise':
            continue
        stl = [e for e in p.events if e.kind == 'store' and e.term == 'self._Frame__shapef' and e.args[0].startswith(f'({P_img}._Frame__shapef[0], ')]
        if not stl:
            continue
        nrel += 1
        label = stl[0].args[0][len(f'({P_img}._Frame__shapef[0], '):-1]
        want = {f"eq({label} == 'GRAY', len({P_img}._Frame__shapef[0]) == 2)", f"eq(len({P_img}._Frame__shapef[0]) == 2, {label} == 'GRAY')",
                f"eq('GRAY' == {label}, len({P_img}._Frame__shapef[0]) == 2)"}
        alt = {k.replace(f'self._Frame__shapef[1]', label) for k, v in p.pc if v is True}
        okl = any(k in want for k in alt)
        rr.ob('relabelling an existing frame is refused when it would cross between GRAY and colour: a completed relabel has tested (stored label is GRAY) <=> (2-D pixels)', okl, mod, stl[0].node,
              witness=f'label {label[:60]}; path: {p.pc_text()[-220:]}', key='relabel-keeps-grayness')
    rr.floor('completed relabelling paths of Frame.__init__', nrel, 1, mod, fn)
    # invalid arrays are refused
    bad = [p for p in paths if p.outcome is not None and p.outcome[0] == 'raise']
    rr.floor('refusing paths of Frame.__init__', len(bad), 2, mod, fn)


def _none_split(p, field):
    """-> list of (case, expression text) for a returning accessor path: case 'none' / 'value' / 'untested'. Understands both `return None if f is None else v`
    (one path, conditional value) and an if-statement that forked the path."""
    o = p.outcome
    if o is None or o[0] != 'return':
        return None
    v = o[1]
    if v is None:
        return [('untested', 'None')]
    none = p.facts.get(f'isnone(self.{field})')
    if none is not None:
        return [('none' if none else 'value', U(v))]
    if isinstance(v, ast.IfExp) and isinstance(v.test, ast.Compare) and len(v.test.ops) == 1 and isinstance(v.test.ops[0], (ast.Is, ast.IsNot)) and \
            isinstance(v.test.comparators[0], ast.Constant) and v.test.comparators[0].value is None and U(v.test.left) == f'self.{field}':
        a_, b_ = (v.body, v.orelse) if isinstance(v.test.ops[0], ast.Is) else (v.orelse, v.body)
        return [('none', U(a_)), ('value', U(b_))]
    return [('untested', U(v))]


@rule('C10.R9', 'the accessors read the state they are named after: shape / height / width / format come from the declared (shape, format) pair - rows first, columns second - and the has_* / is_* '
                'predicates test the private field they describe (None: no image, False: not there yet)')
def r9(rr, repo):
    cls_mod, cls = repo.find(f'{FR}::Frame')
    n = 0
    for name, idx in {'shape': '[0]', 'format': '[1]', 'height': '[0][0]', 'width': '[0][1]'}.items():
        mod, fn, paths = acc_paths(repo, name)
        rr.paths += len(paths)
        for p in paths:
            cases = _none_split(p, '_Frame__shapef')
            if cases is None:
                rr.violated(f'Frame.{name} can end without a value', mod, fn, key=f'acc-falls|{name}')
                continue
            for case, t in cases:
                n += 1
                if case == 'none':
                    rr.ob(f'Frame.{name}: no image -> None', t == 'None', mod, fn, witness=t, key=f'acc|{name}|none')
                elif case == 'value':
                    rr.ob(f'Frame.{name} is element {idx} of the declared (shape, format) pair (numpy shape = (rows, columns[, channels]))', t == f'self._Frame__shapef{idx}', mod, fn, witness=t, key=f'acc|{name}|value')
                else:
                    rr.violated(f'Frame.{name} does not ask whether the frame has an image at all', mod, fn, witness=t, key=f'acc|{name}|untested')
    rr.floor('accessor cases judged', n, 8, cls_mod, cls)
    preds = {'has_jpg': ('_Frame__jpg', 'False', False), 'has_raw': ('_Frame__image', 'False', False), 'is_gray': ('_Frame__shapef', "'GRAY'", True), 'is_rgb': ('_Frame__shapef', "'RGB'", True), 'is_bgr': ('_Frame__shapef', "'BGR'", True)}
    for name, (field, lit, positive) in preds.items():
        mod, fn, paths = acc_paths(repo, name)
        rr.paths += len(paths)
        for p in paths:
            for case, t in (_none_split(p, field) or []):
                if case == 'none':
                    rr.ob(f'Frame.{name}: no image -> None', t == 'None', mod, fn, witness=t, key=f'pred|{name}|none')
                elif case == 'value':
                    ok = t in (f'self.{field}[1] == {lit}', f'{lit} == self.{field}[1]') if positive else t in (f'self.{field} is not {lit}', f'not self.{field} is {lit}')
                    rr.ob(f'Frame.{name} tests {field.replace("_Frame__", "")} against {lit}', ok, mod, fn, witness=t, key=f'pred|{name}|value')
                else:
                    rr.violated(f'Frame.{name} does not ask whether the frame has an image at all', mod, fn, witness=t, key=f'pred|{name}|untested')


@rule('C10.R10', 'a frame hands out ITSELF only when it already is what was asked for: rw -> itself only if writable (or no image), ro -> itself only if read-only / jpg-only (or no image), '
                 'rgb / bgr / gray -> itself only if it has that format (or none), rw_<fmt> / ro_<fmt> -> itself only with that format AND that mutability; in every other case a different frame is returned')
def r10(rr, repo):
    n = 0

    def fmt_fact(p, fmt):
        """True / False / None: does the path know the frame's format to be `fmt`? ('none' when it knows there is no image)"""
        if p.facts.get('isnone(self._Frame__shapef)') is True:
            return 'none'
        for k, v in p.pc:
            if k.startswith(f"eq('{fmt}', self._Frame__shapef") and k.endswith(')'):
                if v is True:
                    return True
                res = False
                # `in (fmt, None)` forks into two eq atoms: a later eq(None, ...) True means "no image"
                for k2, v2 in p.pc:
                    if k2.startswith('eq(None, self._Frame__shapef') and v2 is True:
                        return 'none'
                return res
        return None

    def mut_fact(p):
        """'none' / 'jpg-only' / 'rw' / 'ro' / None"""
        if p.facts.get('isnone(self._Frame__image)') is True:
            return 'none'
        w = None
        for k, v in p.pc:
            if k in ('is(False, self._Frame__image)', 'is(self._Frame__image, False)') and v is True:
                return 'jpg-only'
            if k in ('truthy(self._Frame__image.flags.writeable)', 'truthy(self.image.flags.writeable)'):
                w = 'rw' if v else 'ro'
        return w

    table = {
        'rw': (None, 'rw'), 'ro': (None, 'ro'),
        'rgb': ('RGB', None), 'bgr': ('BGR', None), 'gray': ('GRAY', None),
        'rw_rgb': ('RGB', 'rw'), 'rw_bgr': ('BGR', 'rw'), 'ro_rgb': ('RGB', 'ro'), 'ro_bgr': ('BGR', 'ro'),
    }
    for name, (fmt, mut) in table.items():
        mod, fn, paths = acc_paths(repo, name)
        rr.paths += len(paths)
        selfs = 0
        for p in paths:
            o = p.outcome
            if o is None or o[0] != 'return' or o[1] is None:
                rr.violated(f'Frame.{name} can end without returning a frame', mod, fn, witness=p.pc_text()[-120:], key=f'self|{name}|falls')
                continue
            t = U(o[1])
            f = fmt_fact(p, fmt) if fmt else True
            m = mut_fact(p)
            if t == 'self':
                selfs += 1
                n += 1
                ok_f = f in (True, 'none')
                ok_m = mut is None or f == 'none' or m == 'none' or (mut == 'rw' and m == 'rw') or (mut == 'ro' and m in ('ro', 'jpg-only'))
                rr.ob(f'Frame.{name} returns itself only when it is known to have {"format " + fmt if fmt else "any format"}{" and be " + ("writable" if mut == "rw" else "read-only / jpg-only") if mut else ""} (or to have no image)',
                      ok_f and ok_m, mod, fn, witness=f'format known: {f}, mutability known: {m} [{p.pc_text()[-160:]}]', key=f'self|{name}')
            else:
                # the other direction for the mutability half: a frame that IS what was asked for need not be copied, but a frame that is NOT must never be returned as is - covered above;
                # here: whatever is returned instead is not the frame's own cached-for-another-purpose object
                n += 1
                ok = t.startswith('Frame(') or t.startswith('getattr(self, ')
                rr.ob(f'Frame.{name} returns itself, a cached converted view or a newly built Frame', ok, mod, fn, witness=t[:80], key=f'other|{name}')
        rr.ob(f'Frame.{name} has a path on which the frame itself is good enough', selfs >= 1, mod, fn, key=f'self-exists|{name}')
    rr.floor('accessor return paths judged', n, 30, *acc_paths(repo, 'rw')[:2])


@rule('C10.R11', "'read-only' means 'cannot change' only for memory nobody else can write: the caches (encoded JPEG, converted RGB / BGR / GRAY views) are kept for an image whose own write flag is off, and a read-only VIEW "
                 "of a buffer that is writable through its base (arr.view() with the flag cleared, np.broadcast_to, np.frombuffer over a bytearray) has that flag off too - so the constructor adopts a read-only array "
                 "without a copy only after looking at what owns its memory (the .base chain / OWNDATA), or copies it")
def r11(rr, repo):
    mod, init = repo.find(f'{FR}::Frame.__init__')
    _, cls = repo.find(f'{FR}::Frame')
    caches = [n for n in ast.walk(cls) if isinstance(n, ast.If) and isinstance(n.test, ast.UnaryOp) and isinstance(n.test.op, ast.Not) and U(n.test.operand).endswith('.flags.writeable')
              and any(isinstance(a, ast.Assign) and any(isinstance(t, ast.Attribute) and U(t).startswith('self._') for t in a.targets) for a in ast.walk(n))]
    rr.floor("caches kept under `not <image>.flags.writeable`", len(caches), 2, mod, cls)
    looks = [n for n in ast.walk(init) if isinstance(n, ast.Attribute) and (n.attr in ('base', 'owndata', 'OWNDATA') or (n.attr == 'copy' and 'image' in U(n.value)))]
    rr.ob('Frame.__init__ establishes who owns the memory of a read-only array before adopting it (inspects .base / OWNDATA, or copies)', bool(looks), mod, init,
          witness=f'{len(caches)} caches rest on the write flag alone; references to .base / owndata / image.copy() in __init__: {[U(n) for n in looks] or "none"}', key='ro-view-of-writable-base')


@rule('C10.R12', "a conversion cache holds a view of the format it is named after: whatever is stored into a frame's ro_rgb / ro_bgr / ro_gray slot (on itself or on another frame) was built as Frame(.., .., '<that format>') "
                 "- or read from that very slot; a frame of another format in the slot is handed out later as the RGB / BGR / GRAY view")
def r12(rr, repo):
    mod, cls = repo.find(f'{FR}::Frame')
    SLOT = {'__ro_rgb': 'RGB', '__ro_bgr': 'BGR', '__ro_gray': 'GRAY', '_Frame__ro_rgb': 'RGB', '_Frame__ro_bgr': 'BGR', '_Frame__ro_gray': 'GRAY'}
    n = 0
    def fmt_of_frame_call(c):
        if isinstance(c, ast.Call) and U(c.func) == 'Frame':
            a = c.args[2] if len(c.args) >= 3 else next((k.value for k in c.keywords if k.arg == 'format'), None)
            return q.const_str(a) if a is not None else None
        return None
    def same_slot_read(v, slot):
        fmt = SLOT[slot]
        return any((isinstance(x, ast.Attribute) and SLOT.get(x.attr) == fmt) or (isinstance(x, ast.Constant) and isinstance(x.value, str) and SLOT.get(x.value) == fmt) for x in ast.walk(v))
    for fn in [x for x in ast.walk(cls) if isinstance(x, (ast.FunctionDef, ast.AsyncFunctionDef))]:
        for st in walk_scope(fn):
            stores = []
            if isinstance(st, ast.Assign):
                stores = [(t, st.value, st) for t in st.targets if isinstance(t, ast.Attribute) and t.attr in SLOT]
            elif isinstance(st, ast.Expr) and isinstance(st.value, ast.Call) and U(st.value.func) == 'setattr' and len(st.value.args) == 3 and q.const_str(st.value.args[1]) in SLOT:
                stores = [(ast.Attribute(value=st.value.args[0], attr=st.value.args[1].value), st.value.args[2], st)]
            for t, v, node in stores:
                want = SLOT[t.attr]
                if isinstance(v, ast.Constant) and v.value is None:
                    continue          # clearing a slot
                n += 1
                if isinstance(v, ast.Name) and v.id not in ('self',):
                    binds = [b.value for b in walk_scope(fn) if isinstance(b, ast.Assign) and any(isinstance(x, ast.Name) and x.id == v.id for x in b.targets)] + \
                            [b.value for b in walk_scope(fn) if isinstance(b, ast.NamedExpr) and b.target.id == v.id]
                    kinds = [('frame', fmt_of_frame_call(b)) if fmt_of_frame_call(b) is not None or (isinstance(b, ast.Call) and U(b.func) == 'Frame') else ('slot', want) if same_slot_read(b, t.attr) else ('other', U(b)[:40]) for b in binds]
                elif isinstance(v, ast.Name) and v.id == 'self':
                    # the frame itself: right only where it is known to have that format (a positive test `<format> == '<want>'` governs the store)
                    known = any(pol and isinstance(g, ast.Compare) and len(g.ops) == 1 and isinstance(g.ops[0], ast.Eq) and q.const_str(g.comparators[0]) == want for g, pol in q.guards_of(node, stop=fn))
                    kinds = [('frame', want)] if known else [('other', 'self')]
                else:
                    kinds = [('frame', fmt_of_frame_call(v))] if isinstance(v, ast.Call) and U(v.func) == 'Frame' else [('other', U(v)[:40])]
                ok = bool(kinds) and all(k in ('frame', 'slot') and f == want for k, f in kinds)
                known_bad = any(k == 'frame' and f != want for k, f in kinds) or any(k == 'other' and f in ('self', 'frame', 'src', 'source') for k, f in kinds)
                if ok or known_bad:
                    rr.ob(f"what is stored into a {want} cache slot is a frame built with format '{want}'", ok, mod, node, witness=f'{U(t)} = {U(v)[:60]}: {kinds}', key=f'slot-format|{qualname(fn)}|{U(t)}')
                else:
                    rr.unresolved(f"cannot tell the format of what is stored into the {want} cache slot", mod, node, witness=f'{U(t)} = {U(v)[:60]}: {kinds}', key=f'slot-format|{qualname(fn)}|{U(t)}')
    rr.floor('stores into conversion cache slots', n, 5, mod, cls)


@rule('C10.R13', "a writable view is made fresh on every call: rw, rw_rgb and rw_bgr return the frame itself or a Frame built on this very call - never something kept in (or read back from) the frame; two callers "
                 "who each ask a read-only frame for a writable copy must not be handed the same pixels (the box transform draws into frame.rw.image)")
def r13(rr, repo):
    n = 0
    for name in ('rw', 'rw_rgb', 'rw_bgr'):
        mod, fn, paths = acc_paths(repo, name)
        rr.paths += len(paths)
        for p in paths:
            o = p.outcome
            if o is None or o[0] != 'return' or o[1] is None:
                continue
            n += 1
            ret = U(o[1])
            term = Evaluator.term_of(p, o[1]) if hasattr(Evaluator, 'term_of') else ret
            built = [e for e in p.events if e.kind == 'call' and e.term == 'Frame']
            kept = [e for e in p.events if e.kind == 'store' and e.term.startswith('self.') and e.args and (e.args[0].startswith('Frame(') or 'copy()' in e.args[0])]
            read_back = 'getattr(self' in ret or ('self._Frame__' in ret and not ret.startswith('Frame(')) or any(k.startswith('isnone(getattr(self') and v is False for k, v in p.pc)
            if ret == 'self' and not kept:
                continue
            ok = not kept and not read_back and (ret.startswith('Frame(') or bool(built))
            rr.ob(f'{name}: what is returned besides the frame itself is built on this call and not kept in the frame', ok, mod, (kept[0].node if kept else fn),
                  witness=f'returns {ret[:60]}; stored into the frame: {[e.term for e in kept] or "nothing"}; read back from the frame: {read_back}', key=f'rw-fresh|{name}')
    rr.floor('returning paths of the writable-view accessors', n, 6)


@rule('C10.R14', "the pixels a frame decodes agree with its label: Frame.decode forces one plane for GRAY and three for everything else - a flag that lets the blob decide (a grayscale jpg / png given without a format) "
                 "yields 2-D pixels under the BGR label from_blob gives them, `.bgr` hands those out as they are, `.gray` fails (shares C09.R5)")
def r14(rr, repo):
    from .c09 import r5 as c09r5
    c09r5(rr, repo)
