"""C05 - ephemeral listeners never hold up or alter the synchronized stream (necessary structural conditions)."""

from __future__ import annotations

import ast
import re

from . import rule
from .zmq import anchors, Z, ret_const, stmt_list_containing
from .c01 import sync_region, summary_region
from .c04 import client_loop_paths, field_fact, timed_out
from ..model import Unresolved, walk_scope, parent, enclosing_function, qualname
from ..paths import U, Path, Evaluator
from .. import q


@rule('C05.R1', 'an ephemeral client never forces do_send / out_do_send false, whatever its requested mark')
def r1(rr, repo):
    za = anchors(repo)
    loop, paths = client_loop_paths(za)
    rr.paths += len(paths)
    n = 0
    for p in paths:
        to, _ = timed_out(za, p)
        if to or to is None:
            continue
        eph = field_fact(za, p, 'ephemeral')
        bal = p.facts.get('truthy(self.balance)')
        if bal is False and eph is True:
            n += 1
            blocks = [e for e in p.events if e.kind == 'bind' and e.term == 'do_send' and e.args[0] == 'False']
            rr.ob('unbalanced: an ephemeral client does not block the send', not blocks, za.mod, blocks[0].node if blocks else loop, witness=p.pc_text(), key='eph-noblock')
        if bal is False and eph is None and field_fact(za, p, 'requested') is False:
            rr.violated('unbalanced: a client is judged without looking at its ephemeral mark', za.mod, loop, witness=p.pc_text(), key='eph-untested')
    rr.floor('rows with an ephemeral client', n, 1, za.mod, loop)
    # balanced form is the structural `out_do_send and (requested or ephemeral)` checked in C04.R2; restate the ephemeral disjunct
    st = [e for p in paths for e in p.events if e.kind == 'store' and isinstance(e.value, ast.Tuple) and len(e.value.elts) == 3]
    i_eph = za.client_fields.index('ephemeral')
    for e in st[:1]:
        first = e.value.elts[0]
        ok = isinstance(first, ast.BoolOp) and any(isinstance(v, ast.BoolOp) and isinstance(v.op, ast.Or) and any(U(x).endswith(f'[1][{i_eph}]') for x in v.values) for v in first.values)
        rr.ob("balanced: an ephemeral client keeps its output's out_do_send true", ok, za.mod, e.node, witness=U(first)[-120:], key='eph-bal')


@rule('C05.R2', 'the fast-forward of the publisher id is unreachable for a request from an ephemeral client')
def r2(rr, repo):
    za = anchors(repo)
    n = 0
    for p in za.paths('poll'):
        for e in p.events:
            if e.kind == 'store' and e.term == 'self.min_send_id':
                n += 1
                ephs = [v for kk, v in p.pc[:e.pc_len] if kk.startswith('truthy(') and ".get('eph'" in kk]
                rr.ob('fast-forward only under `not ephemeral` of the requesting client', bool(ephs) and ephs[-1] is False, za.mod, e.node, witness=p.pc_text(e.pc_len)[-300:], key='ff-not-eph')
    rr.floor('fast-forward stores', n, 1, za.mod, za.S_poll)


def _eph_rel(pc):
    """relation of the ephemeral level vs 2 recorded in a path-condition prefix"""
    rel = None
    for kk, v in pc:
        if kk.startswith('ord(2, '):
            rel = {'<': '>', '>': '<', '=': '='}[v]
        elif kk.startswith('ord(') and kk.endswith(', 2)'):
            rel = v
    return rel


@rule('C05.R3', "'??' has no request channel: Sender.push is None for ephemeral >= 2 and every use of the push socket sits under ephemeral < 2")
def r3(rr, repo):
    za = anchors(repo)
    uses = set()
    # constructor
    for p in za.paths('rs_init'):
        for e in p.events:
            if e.kind == 'store' and e.term == 'self.push':
                v = e.value
                rel = _eph_rel(p.pc[:e.pc_len])
                if isinstance(v, ast.IfExp):
                    ok = isinstance(v.orelse, ast.Constant) and v.orelse.value is None and '< 2' in U(v.test) and 'PUSH' in U(v.body)
                elif isinstance(v, ast.Constant) and v.value is None:
                    ok = rel in ('=', '>')
                else:
                    ok = 'PUSH' in U(v) and rel == '<'
                rr.ob('the push socket exists only for ephemeral < 2 (else None)', ok, za.mod, e.node, witness=f'{U(v)[:80]} under {rel}', key='push-create')
            handed = e.kind == 'call' and any(isinstance(a, ast.Attribute) and 'zmq.PUSH' in U(a) for a in getattr(e.value, 'args', []))      # attach(push.connect, addr): a bound method of the socket handed to a wrapper
            if (e.kind == 'call' and 'zmq.PUSH' in e.term and re.search(r'\)\.(\w+)$', e.term)) or handed:
                uses.add(id(e.node))
                ok = _eph_rel(p.pc[:e.pc_len]) == '<'
                rr.ob('constructor touches the push socket only under ephemeral < 2', ok, za.mod, e.node, witness=p.pc_text(e.pc_len)[-200:], key='push-use-init')
    for fn, label in ((za.RS_send_push, 'send_push'), (za.R_destroy, 'destroy')):
        ev = za.ev(unroll_for=1)
        ps = ev.run(fn.body)
        rr.paths += len(ps)
        for p in ps:
            for e in p.events:
                if e.kind == 'call' and '.push.' in e.term:
                    uses.add(id(e.node))
                    recv = e.term[:e.term.index('.push.')]
                    rel = q.order(p, f'{recv}.ephemeral', '2')
                    pcs = dict(p.pc[:e.pc_len])
                    rel_at = None
                    for kk, v in p.pc[:e.pc_len]:
                        if kk in (f'ord(2, {recv}.ephemeral)',):
                            rel_at = {'<': '>', '>': '<', '=': '='}[v]
                        elif kk == f'ord({recv}.ephemeral, 2)':
                            rel_at = v
                    rr.ob(f'{label}: the push socket is used only under ephemeral < 2', rel_at == '<', za.mod, e.node, witness=p.pc_text(e.pc_len)[-200:], key=f'push-use|{label}')
    # any other attribute use of .push in the module
    known_fns = {za.RS_init, za.RS_send_push, za.R_destroy}
    for n in ast.walk(za.mod.tree):
        if isinstance(n, ast.Attribute) and n.attr == 'push' and isinstance(n.ctx, ast.Load) and isinstance(parent(n), ast.Attribute):
            fn = enclosing_function(n)
            if fn not in known_fns:
                rr.violated('the push socket is used outside the functions that guard it with ephemeral < 2', za.mod, n, key=f'push-use-other|{qualname(n)}')
    rr.floor("uses of the push socket examined", len(uses), 7, za.mod, za.R_Sender)


@rule('C05.R4', 'ephemeral sources are tracked per source and all-or-nothing: own expected id, skip on older, adopt after accept; they neither trigger nor receive resets')
def r4(rr, repo):
    za = anchors(repo)
    sync, slst, eph, elst = sync_region(za)
    rr.ob('an ephemeral source is compared against its own expected id (sender.min_recv_id)', isinstance(eph.args[0], ast.Attribute) and eph.args[0].attr == 'min_recv_id', za.mod, eph, key='eph-own-id')
    ev = za.ev()
    ps = ev.run(elst, za.start(za.R_once))
    rr.paths += len(ps)
    n = 0
    for p in ps:
        nones = [v for kk, v in p.pc if kk.startswith('isnone(process_msg(')]
        if nones and nones[0] is False or not nones and p.outcome is None:
            n += 1
            st = [e for e in p.events if e.kind == 'store' and e.term.endswith('.min_recv_id')]
            rr.ob('after accepting a message the ephemeral source adopts its id', bool(st) and st[-1].args[0] == za.r_mid, za.mod, st[-1].node if st else eph, witness=p.pc_text(), key='eph-adopt')
        resets = [e for e in p.events if e.kind == 'call' and e.term.endswith('.new_recv') and '__elem__' in e.term]
        binds = [e for e in p.events if e.kind == 'bind' and e.term == sync.args[0].id]
        rr.ob('a message from an ephemeral source never resets other sources nor moves the shared expected id', not resets and not binds, za.mod,
              (resets or binds or [None])[0].node if (resets or binds) else eph, witness=p.pc_text(), key='eph-no-trigger')
    rr.floor('accepting paths of the ephemeral branch', n, 1, za.mod, eph)
    for p in ps:
        nones = [v for kk, v in p.pc if kk.startswith('isnone(process_msg(')]
        if nones and nones[0] is True:
            rr.ob('a discarded message of an ephemeral source is skipped', p.outcome is not None and p.outcome[0] == 'continue' and not any(e.kind == 'store' and e.term.endswith('.min_recv_id') for e in p.events),
                  za.mod, eph, witness=f'{p.pc_text()} => {p.outcome_text()}', key='eph-skip')
    # an ephemeral source is never the target of a reset triggered by a synchronized one
    ev2 = za.ev()
    for p in ev2.run(slst, za.start(za.R_once)):
        e_eph = [v for kk, v in p.facts.items() if kk.startswith('truthy(__elem__') and kk.endswith('.ephemeral)')]
        isself = [v for kk, v in p.facts.items() if kk.startswith('is(') and '__elem__' in kk]
        resets = [e for e in p.events if e.kind == 'call' and e.term.endswith('.new_recv') and '__elem__' in e.term and not e.args]
        if resets and not (e_eph and e_eph[0] is False):
            rr.violated('a reset triggered by a synchronized source reaches a source whose ephemeral mark was not tested false', za.mod, resets[0].node, witness=p.pc_text(), key='eph-reset-target')
    from .c01 import r6 as c01r6
    c01r6(rr, repo)
    # the branch that hosts the ephemeral call is selected by the source's ephemeral mark
    g = q.guards_of(q.enclosing_stmt(eph), stop=za.R_once)
    gs = q.guards_of(q.enclosing_stmt(sync), stop=za.R_once)
    okb = any(pol and 'eph' in U(t) for t, pol in g) and any((not pol) and 'eph' in U(t) for t, pol in gs)
    rr.ob('per-source tracking is selected by sender.ephemeral, shared tracking by its negation', okb, za.mod, q.enclosing_stmt(eph), key='eph-branch')


@rule('C05.R5', 'ephemeral sources do not carry the balanced mark and a balanced receiver rejects ephemeral sources')
def r5(rr, repo):
    za = anchors(repo)
    binds = [n for n in ast.walk(za.R_once) if isinstance(n, ast.NamedExpr) and isinstance(n.target, ast.Name) and "'bal'" in U(n.value)]
    rr.floor("bindings of the message's balanced mark", len(binds), 1, za.mod, za.R_once)
    for b in binds:
        v = b.value
        ok = isinstance(v, ast.BoolOp) and isinstance(v.op, ast.And) and isinstance(v.values[0], ast.UnaryOp) and isinstance(v.values[0].op, ast.Not) and 'eph' in U(v.values[0])
        rr.ob('the balanced mark of a message is ignored for ephemeral sources (not sender_eph and ...)', ok, za.mod, b, witness=U(v), key='bal-not-eph')
    ev = za.ev(unroll_for=1)
    ps = ev.run(za.R_init.body)
    n = 0
    for p in ps:
        eph = [v for kk, v in p.pc if kk.startswith('truthy(') and kk.endswith('.ephemeral)')]
        if p.facts.get('truthy(balance)') is True and eph and eph[-1] is True:
            n += 1
            rr.ob('constructing a balanced receiver with an ephemeral source raises', p.outcome is not None and p.outcome[0] == 'raise', za.mod, za.R_init, witness=f'{p.pc_text()} => {p.outcome_text()}', key='bal-eph-raise')
    if not n:
        rr.violated('the constructor does not look at (balance and sender.ephemeral) at all', za.mod, za.R_init, key='bal-eph-untested')


@rule('C05.R6', "only ephemeral sources are announced as ephemeral: the request marks ('eph', 'new') are computed per source (shares C04.R7)")
def r6(rr, repo):
    from .c04 import request_mark_obligations
    request_mark_obligations(rr, repo)


@rule('C05.R7', "a '?' attachment cannot change how a synchronized attachment of the same consumer is counted: every connection has its own random unique id and the publisher keys its wait set by client id + unique id (shares C04.R6)")
def r7(rr, repo):
    from .c04 import r6 as c04r6
    c04r6(rr, repo)


# socket options that make a send wait for a slow / dead peer instead of dropping for that peer only
BLOCKING_OPTS = {'XPUB_NODROP': 'a PUB socket that may not drop blocks in send() as soon as ONE subscriber (e.g. a stalled ephemeral listener) reaches its high-water mark',
                 'IMMEDIATE': 'queues only to completed connections: changes who is counted as a peer',
                 'SNDTIMEO': 'a send timeout makes the publish blocking (and failing) instead of dropping'}
KNOWN_OPTS = {'SNDHWM', 'RCVHWM', 'LINGER', 'RECONNECT_IVL', 'RECONNECT_IVL_MAX', 'SUBSCRIBE', 'UNSUBSCRIBE', 'TCP_KEEPALIVE', 'TCP_KEEPALIVE_IDLE', 'TCP_KEEPALIVE_INTVL', 'TCP_KEEPALIVE_CNT',
              'CONFLATE', 'RCVTIMEO', 'IPV6', 'MAXMSGSIZE', 'SNDBUF', 'RCVBUF', 'BACKLOG', 'HEARTBEAT_IVL', 'HEARTBEAT_TIMEOUT', 'HEARTBEAT_TTL'}


@rule('C05.R8', 'a listener that stops reading cannot hold up the publisher: data goes out on PUB sockets with a bounded send queue that DROP for a slow subscriber (no option that turns the publish into a '
                'blocking call), and requests are pushed without waiting')
def r8(rr, repo):
    za = anchors(repo)
    n = 0
    for fn, what in ((za.S_init, 'ZMQSender.__init__'), (za.RS_init, 'ZMQReceiver.Sender.__init__')):
        socks = {}
        for a in ast.walk(fn):
            v = a.value if isinstance(a, (ast.Assign, ast.NamedExpr)) else None
            # x = context.socket(zmq.PUB) / pubs.append(pub := context.socket(zmq.PUB)) / x = ... if cond else None
            for c in ([v] if v is not None else []):
                for cc in ast.walk(c):
                    if isinstance(cc, ast.Call) and isinstance(cc.func, ast.Attribute) and cc.func.attr == 'socket' and cc.args and U(cc.args[0]).startswith('zmq.'):
                        tg = a.targets if isinstance(a, ast.Assign) else [a.target]
                        for t in tg:
                            if isinstance(t, ast.Name):
                                socks[t.id] = U(cc.args[0])[4:]
        for c in q.calls_in(fn):
            if isinstance(c.func, ast.Attribute) and c.func.attr in ('setsockopt', 'setsockopt_string', 'set', 'set_string', 'set_hwm') and isinstance(c.func.value, ast.Name) and c.func.value.id in socks and c.args:
                kind = socks[c.func.value.id]
                opt = U(c.args[0])[4:] if U(c.args[0]).startswith('zmq.') else U(c.args[0])
                n += 1
                if opt in BLOCKING_OPTS:
                    rr.violated(f'{what}: the {kind} socket is given {opt}: {BLOCKING_OPTS[opt]}', za.mod, c, witness=U(c)[:100], key=f'sockopt|{kind}|{opt}')
                elif opt in KNOWN_OPTS:
                    rr.holds(f'{what}: {kind} socket option {opt} does not make sends wait for a peer', za.mod, c, witness=U(c)[:100], key=f'sockopt|{kind}|{opt}')
                else:
                    rr.unresolved(f'{what}: {kind} socket option {opt} is not in the table of options known to keep sends non-blocking', za.mod, c, witness=U(c)[:100], key=f'sockopt|{kind}|{opt}')
        if 'PUB' in socks.values():
            hwm = [c for c in q.calls_in(fn) if isinstance(c.func, ast.Attribute) and c.func.attr == 'setsockopt' and isinstance(c.func.value, ast.Name) and socks.get(c.func.value.id) == 'PUB' and c.args and U(c.args[0]) == 'zmq.SNDHWM']
            rr.ob('the PUB send queue is bounded explicitly (SNDHWM): a stalled subscriber costs a bounded backlog, then its messages are dropped', bool(hwm), za.mod, fn, key='pub-hwm')
    rr.floor('socket options examined', n, 8, za.mod, za.S_init)
    # requests / CLOSE / OOB are pushed without waiting
    sp = [c for c in q.calls_in(za.R_Sender) if isinstance(c.func, ast.Attribute) and c.func.attr == 'send_multipart' and 'push' in U(c.func.value)]
    rr.floor("push sends", len(sp), 1, za.mod, za.R_Sender)
    def always_nonblocking(e):
        # the flag expression carries DONTWAIT / NOBLOCK on every evaluation: the constant itself, an OR-combination that contains it, a conditional whose both arms do
        if isinstance(e, ast.Attribute) and e.attr in ('DONTWAIT', 'NOBLOCK'):
            return True
        if isinstance(e, ast.BinOp) and isinstance(e.op, ast.BitOr):
            return always_nonblocking(e.left) or always_nonblocking(e.right)
        if isinstance(e, ast.IfExp):
            return always_nonblocking(e.body) and always_nonblocking(e.orelse)
        return False
    for c in sp:
        flags = list(c.args[1:]) + [k.value for k in c.keywords if k.arg == 'flags']
        rr.ob('a request is pushed with DONTWAIT on every call, whatever the state of the connection (a dead publisher cannot block the consumer)', any(always_nonblocking(f) for f in flags), za.mod, c, witness=U(c)[:140], key='push-dontwait')


@rule('C05.R9', "an ephemeral source coming or going never moves the synchronized stream's expected id: the shared expected id is (re)bound only at entry and to the id of an accepted synchronized message, a CLOSE "
                "resets the closing source's own floor only (shares C02.R2)")
def r9(rr, repo):
    from .c02 import r2 as c02r2
    c02r2(rr, repo)


@rule('C05.R10', "under balanced outputs a listener never draws frames: an output becomes eligible for a frame only through the request of a synchronized client - the per-output count of requests that the choice of the "
                 "output rests on counts a client only when it is not ephemeral; an output that only a '?' listener watches (its worker is gone) otherwise takes its share of the frames away from the workers")
def r10(rr, repo):
    za = anchors(repo)
    loop, paths = client_loop_paths(za)
    st = {id(e.node): e for p in paths for e in p.events if e.kind == 'store' and isinstance(e.value, ast.Tuple) and len(e.value.elts) == 3}
    rr.floor('per-output summaries built in the client loop', len(st), 1, za.mod, loop)
    i_eph, i_req = za.client_fields.index('ephemeral'), za.client_fields.index('requested')
    for e in st.values():
        cnt = e.value.elts[1]
        if not (isinstance(cnt, ast.BinOp) and isinstance(cnt.op, ast.Add)):
            rr.unresolved('the request count of an output is not a sum over its clients', za.mod, e.node, witness=U(cnt)[:120], key='bal-count-form')
            continue
        terms = [t for t in (cnt.left, cnt.right) if not U(t).endswith('[1]') and 'nrequested' not in U(t)]
        if len(terms) != 1:
            rr.unresolved('cannot tell the per-client term of the request count', za.mod, e.node, witness=U(cnt)[:120], key='bal-count-form')
            continue
        t = terms[0]
        mentions_req = any(U(x).endswith(f'[1][{i_req}]') for x in ast.walk(t))
        excl = isinstance(t, ast.BoolOp) and isinstance(t.op, ast.And) and any(isinstance(v, ast.UnaryOp) and isinstance(v.op, ast.Not) and U(v.operand).endswith(f'[1][{i_eph}]') for v in t.values) and \
            any(U(v).endswith(f'[1][{i_req}]') for v in t.values)
        plain = U(t).endswith(f'[1][{i_req}]')
        if excl or plain:
            rr.ob("balanced: the request of an ephemeral client is not counted towards its output's eligibility", excl, za.mod, e.node, witness=U(t)[-160:], key='bal-eph-not-counted')
        else:
            rr.unresolved("balanced: the per-client term of the request count has a form this rule does not know", za.mod, e.node, witness=U(t)[-160:], key='bal-count-form')
    # the count really is what eligibility rests on: send_maybe picks among outputs with `out_do_send and out_nrequested`
    picks = [c for c in ast.walk(za.S_maybe) if isinstance(c, ast.comprehension) and any('nrequested' in U(i) for i in c.ifs)]
    rr.ob('the output for a frame is chosen among outputs with at least one counted request', bool(picks), za.mod, za.S_maybe, witness=U(picks[0].ifs[0])[:100] if picks else 'no filter on the request count', key='bal-pick-counted')


def close_drop_coverage(h):
    """-> (covers ephemeral sources, covers synchronized sources, number of drops): which kinds of source get their half received set dropped by the CLOSE handler `h` of recv_once"""
    drops = [c for c in q.calls_in(h) if U(c.func).endswith('.new_recv') and not c.args and not c.keywords]
    eph = sync = False
    for c in drops:
        g = [(U(t), pol) for t, pol in q.guards_of(c, stop=h)]
        terms = []
        for t, pol in q.guards_of(c, stop=h):       # split conjunctions that hold
            if pol and isinstance(t, ast.BoolOp) and isinstance(t.op, ast.And):
                terms += [(U(v), True) for v in t.values]
            else:
                terms.append((U(t), pol))
        only_eph = any(('eph' in t) and ((pol and not t.startswith('not ')) or (not pol and t.startswith('not '))) for t, pol in terms)
        only_sync = any(('eph' in t) and ((pol and t.startswith('not ')) or (not pol and not t.startswith('not '))) for t, pol in terms)
        eph = eph or not only_sync
        sync = sync or not only_eph
    return eph, sync, len(drops)


@rule('C05.R11', "a listener leaves no trace in what the synchronized consumers get: its CLOSE does not withdraw the publisher's permission to send (only a synchronized client's CLOSE does), the id it asks for "
                 "does not enter the 'which balanced output is furthest behind' maximum, and when an ephemeral SOURCE closes, the half received set it leaves behind is dropped (it can never complete, and "
                 "must not be completed by the next publisher on that address)")
def r11(rr, repo):
    za = anchors(repo)
    # (a) CLOSE of an ephemeral client
    wd = [n for n in ast.walk(za.S_poll) if isinstance(n, ast.Assign) and U(n.targets[0]) == 'do_send' and U(n.value) == 'False' and any('MSG_ID_CLOSE' in U(t) for t, pol in q.guards_of(n, stop=za.S_poll) if pol)]
    rr.floor('withdrawals of the send permission on the CLOSE path', len(wd), 1, za.mod, za.S_poll)
    for n in wd:
        g = [(U(t), pol) for t, pol in q.guards_of(n, stop=za.S_poll)]
        spared = any(('ephemeral' in t and ((not pol and not t.startswith('not ')) or (pol and t.startswith('not ')))) for t, pol in g)
        rr.ob("the CLOSE of an ephemeral client does not withdraw the permission to send", spared, za.mod, n, witness=' && '.join(('' if pol else 'not ') + t for t, pol in g)[-200:], key='eph-close-no-withdraw')
    # (b) the balanced maximum
    loop, paths = client_loop_paths(za)
    st = {id(e.node): e for p in paths for e in p.events if e.kind == 'store' and isinstance(e.value, ast.Tuple) and len(e.value.elts) == 3}
    i_eph = za.client_fields.index('ephemeral')
    for e in st.values():
        third = e.value.elts[2]
        uses_max = any(isinstance(c, ast.Call) and U(c.func) == 'max' for c in ast.walk(third))
        cond = isinstance(third, ast.IfExp) and U(third.test).endswith(f'[1][{i_eph}]') and not any(isinstance(c, ast.Call) and U(c.func) == 'max' for c in ast.walk(third.body))
        if uses_max:
            rr.ob("balanced: an ephemeral client's id does not enter the maximum that ranks the outputs", cond, za.mod, e.node, witness=U(third)[-200:], key='eph-not-in-max')
        else:
            rr.unresolved('balanced: the ranking term of an output is not a max() over its clients', za.mod, e.node, witness=U(third)[-120:], key='eph-not-in-max')
    # (c) CLOSE of an ephemeral source at the receiver
    closes = [n for n in ast.walk(za.R_once) if isinstance(n, ast.If) and 'MSG_ID_CLOSE' in U(n.test)]
    rr.floor('CLOSE handlers in recv_once', len(closes), 1, za.mod, za.R_once)
    for h in closes:
        eph, sync, n = close_drop_coverage(h)
        rr.ob("when an ephemeral source closes, a half received set of it is dropped", eph, za.mod, h, witness=f'new_recv() calls in the CLOSE handler: {n}', key='eph-close-drops-partial')


@rule('C05.R12', "a stalled listener cannot keep the publisher from finishing: every PUB socket is closed with a finite linger (close(linger=N), a LINGER option set on it, or a context destroyed with a linger) - "
                 "with ZeroMQ's default the close waits until every queued message has been taken, so one stopped subscriber process ('??' included, it needs no request socket for that) blocks Context.term() and "
                 "with it ZMQSender.destroy(), Filter.fini() and the end of run() for ever")
def r12(rr, repo):
    za = anchors(repo)
    closes = [c for c in q.calls_in(za.S_destroy) if isinstance(c.func, ast.Attribute) and c.func.attr == 'close' and U(c.func.value).split('.')[-1] in ('pub', 'sock', 'socket')]
    rr.floor('closes of PUB sockets in ZMQSender.destroy', len(closes), 1, za.mod, za.S_destroy)
    opts = [c for c in list(q.calls_in(za.S_init)) + list(q.calls_in(za.S_destroy)) if isinstance(c.func, ast.Attribute) and c.func.attr == 'setsockopt' and c.args and U(c.args[0]).endswith('LINGER') and U(c.func.value).split('.')[-1] == 'pub']
    _, free = repo.find(f'{Z}::ZMQContext.free')
    ctx = [c for c in q.calls_in(free) if isinstance(c.func, ast.Attribute) and c.func.attr in ('destroy', 'term') and (q.kwarg(c, 'linger') is not None or c.args)]
    def finite(node):
        if node is None:
            return None
        if isinstance(node, ast.Constant):
            return isinstance(node.value, int) and node.value >= 0
        if isinstance(node, ast.UnaryOp) and isinstance(node.op, ast.USub):
            return False
        v = za.consts_env.get(U(node))
        return (isinstance(v, int) and v >= 0) if v is not None else None
    for c in closes:
        lg = q.kwarg(c, 'linger') if q.kwarg(c, 'linger') is not None else (c.args[0] if c.args else None)
        f = finite(lg)
        by_opt = any(finite(o.args[1]) for o in opts if len(o.args) > 1)
        by_ctx = any(finite(q.kwarg(x, 'linger') if q.kwarg(x, 'linger') is not None else x.args[0]) for x in ctx)
        if lg is not None and f is None and not by_opt and not by_ctx:
            rr.unresolved('the linger value a PUB socket is closed with could not be folded', za.mod, c, witness=U(c)[:80], key='pub-close-bounded')
        else:
            rr.ob('the PUB socket is closed with a finite linger', bool(f) or by_opt or by_ctx, za.mod, c,
                  witness=f'{U(c)[:80]}; LINGER option on the socket: {by_opt}; linger on the context: {by_ctx}', key='pub-close-bounded')


@rule('C05.R13', "a listener stays a listener: whether a client is ephemeral is taken from its REQUESTS (every request envelope says so); handling an out-of-band message or a CLOSE never rewrites a client's record "
                 "from that message's own fields - such an envelope carries no 'eph' mark, the listener would be filed as a synchronized client that has not asked, and the publisher would wait for it")
def r13(rr, repo):
    za = anchors(repo)
    fields = list(za.client_fields)
    ei = fields.index('ephemeral') if 'ephemeral' in fields else None
    if ei is None:
        raise Unresolved(f'{Z}: ZMQSender.Client has no ephemeral field any more')
    builds = [c for c in q.calls_in(za.S_poll, into_functions=False) if U(c.func).endswith('Client') and len(c.args) > ei]
    rr.floor('constructions of a client record in poll_recv', len(builds), 1, za.mod, za.S_poll)
    k = 0
    for c in builds:
        g = q.effective_guards(c, za.S_poll)
        special = any(p and ('MSG_ID_SPECIAL' in t or 'MSG_ID_OOB' in t or 'MSG_ID_CLOSE' in t) for t, p in g)
        arg = U(c.args[ei])
        if special:
            k += 1
            rr.ob("a record rewritten while a special message (out-of-band, CLOSE) is handled keeps the client's own ephemeral flag", arg.endswith('.ephemeral') and not arg.startswith(za.s_env), za.mod, c,
                  witness=f'ephemeral := {arg}', key='special-message-keeps-ephemeral')
        else:
            ok = any(isinstance(n, ast.Assign) and U(n.targets[0]) == arg and f"{za.s_env}.get('eph'" in U(n.value).replace('"', "'") for n in walk_scope(za.S_poll))
            rr.ob("an ordinary request files the client with the ephemeral mark of that request", ok, za.mod, c, witness=f'ephemeral := {arg}', key='request-sets-ephemeral')


@rule('C05.R14', "a listener's subscription is not rewritten by what it receives: the per-id set of an explicit-topic source is a fresh object, never the subscription template itself - edits of the set "
                 "(a frame stored, a topic the publisher did not send removed) would otherwise stay for good: a subscribed topic vanishes from every later set and a stale frame is handed out again "
                 "(shares C01.R8 and C01.R11)")
def r14(rr, repo):
    from .c01 import r8 as c01r8, r11 as c01r11
    c01r8(rr, repo)
    c01r11(rr, repo)


@rule('C05.R15', "the marks mean what they say: an address ending in '?' is an ephemeral source (level 1), one ending in '??' a doubly ephemeral one (level 2) that has no request socket at all and is never sent a "
                 "request, anything else is synchronized (level 0) - decided by evaluating the constructor's own expressions on the three spellings. A level computed wrongly makes a listener a "
                 "synchronized consumer the publisher waits for (or a '??' listener a client that asks)")
def r15(rr, repo):
    from ..peval import PEval, Obj, Sym, Lit, Undecided, Raised
    za = anchors(repo)
    init = za.RS_init
    params = q.func_params(init)
    addr = params[2]
    wal = [n for n in ast.walk(init) if isinstance(n, ast.NamedExpr) and U(n.target) == 'ephemeral']
    plain = [n for n in walk_scope(init) if isinstance(n, ast.Assign) and U(n.targets[0]) == 'ephemeral']
    level = wal[0].value if wal else plain[0].value if plain else None
    if level is None:
        rr.unresolved('where the ephemeral level of a source is computed was not found', za.mod, init, key='ephemeral-levels')
        return
    strip = [n for n in walk_scope(init) if isinstance(n, ast.Assign) and U(n.targets[0]) == addr and isinstance(n.value, ast.Call)]
    push = [n for n in walk_scope(init) if isinstance(n, ast.Assign) and any(U(t) == 'self.push' for t in n.targets)]
    kept = [n for n in walk_scope(init) if isinstance(n, ast.Assign) and any(U(t) == 'self.ephemeral' for t in n.targets)]
    rr.floor('stores of the request socket and of the level in Sender.__init__', len(push) + len(kept), 2, za.mod, init)
    sp_guard = [n for n in walk_scope(za.RS_send_push) if isinstance(n, ast.If) and 'ephemeral' in U(n.test)][:1]
    for text, want in (('tcp://host:5550', 0), ('tcp://host:5550?', 1), ('tcp://host:5550??', 2), ('ipc://pipe?', 1), ('ipc://pi?pe', 0)):
        try:
            pe = PEval({addr: Lit(text)})
            lv = pe.ev(level)
            ok = isinstance(lv, Lit) and int(lv.v) == want
            rr.ob(f'the ephemeral level of {text!r} is {want}', ok, za.mod, level, witness=f'{U(level)[:80]} -> {lv!r}', key=f'ephemeral-levels|{text}')
            if not ok:
                continue
            pe.env['ephemeral'] = Lit(want)
            if strip and want:
                a2 = pe.ev(strip[0].value)
                rr.ob(f'the address the sockets connect to is {text!r} without its mark', isinstance(a2, Lit) and a2.v == text.rstrip('?'), za.mod, strip[0], witness=repr(a2), key=f'ephemeral-mark-stripped|{text}')
            pe.env['context'] = Sym('context', nn=True)
            pv = pe.ev(push[0].value)
            none = isinstance(pv, Lit) and pv.v is None
            rr.ob(f"a source of level {want} {'has no request socket' if want == 2 else 'has a request socket'}", none == (want == 2), za.mod, push[0], witness=f'self.push = {pv!r}', key=f'request-socket|{want}')
            kv = pe.ev(kept[0].value)
            rr.ob('the level is kept as computed', isinstance(kv, Lit) and kv.v == want, za.mod, kept[0], witness=repr(kv), key=f'level-kept|{want}')
            if sp_guard:
                t = PEval({'self': Obj({'ephemeral': Lit(want)}, 'self')}).ev(sp_guard[0].test)
                rr.ob(f"send_push {'sends nothing to' if want == 2 else 'sends to'} a source of level {want}", isinstance(t, Lit) and bool(t.v) == (want < 2), za.mod, sp_guard[0], witness=f'{U(sp_guard[0].test)} -> {t!r}', key=f'send-push-level|{want}')
        except (Undecided, Raised) as exc:
            rr.unresolved(f'the ephemeral level of {text!r} could not be evaluated', za.mod, level, witness=str(exc)[:100], key=f'ephemeral-levels|{text}')


@rule('C05.R16', "a synchronized consumer stays synchronized when the pipeline is wired by the command line: the address the CLI remembers for a filter id is the bare address, and each consumer gets it "
                 "with ITS OWN suffix - remembered with the first consumer's '?' it would make every later consumer of that id a listener the publisher never waits for (shares C12.R2)")
def r16(rr, repo):
    from .c12 import r2 as c12r2
    c12r2(rr, repo)
