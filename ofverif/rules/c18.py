"""C18 - well-formed lineage history: START first, exactly one terminal event of the right kind, one run id - evaluated on
the same (site x kind) scenarios of Filter.run as C08 (E5), with lineage emissions as the event alphabet."""

from __future__ import annotations

import ast

from . import rule
from .c08 import model, trace, scenario_label, FILTER
from ..model import Unresolved, walk_scope, parent, enclosing_function, qualname
from ..paths import U, Path, Evaluator
from .. import q

LIN = 'openfilter/observability/lineage.py'

# (site, kind, via_exit, expected terminal kind or None when only the count is judged)
SCENARIOS = [
    (None, None, False, 'COMPLETE'),
    ('setup', 'Exit', True, 'COMPLETE'),
    ('loop_once', 'Exit', True, 'COMPLETE'),
    ('loop_once#2', 'Exit', True, 'COMPLETE'),
    ('shutdown', 'Exit', True, 'COMPLETE'),
    ('loop_once', 'PropagateError', True, None),
    ('setup', 'Exception', False, 'ABORT'),
    ('loop_once', 'Exception', False, 'ABORT'),
    ('loop_once#2', 'Exception', False, 'ABORT'),
    ('shutdown', 'Exception', False, 'ABORT'),
    ('fini', 'Exception', False, 'ABORT'),
    ('send_exit_msg', 'Exception', False, 'ABORT'),
    ('loop_once', 'KeyboardInterrupt', False, 'ABORT'),
    ('init', 'Exception', False, None),
    ('init', 'KeyboardInterrupt', False, None),      # neither an Exception nor Filter.Exit: only the finally blocks of run() are left to close the lineage run
    ('setup', 'KeyboardInterrupt', False, None),
]


def heartbeat_complete_site(repo):
    """The call in OpenFilterLineage._heartbeat_loop that emits COMPLETE once the stop flag is seen (None if absent)."""
    found = repo.try_find(f'{LIN}::OpenFilterLineage._heartbeat_loop')
    if found is None:
        return None, None
    lm, fn = found
    for st in fn.body:
        if isinstance(st, ast.While):
            continue
        for c in ast.walk(st):
            if isinstance(c, ast.Call) and U(c.func) in ('self.emit_complete', 'self.emit_stop'):
                return lm, c
    return lm, None


def lineage_events(p: Path, mod, hb=None):
    """[(kind, site_key, node)] in program order; the heartbeat thread's COMPLETE is attributed to the first
    stop_lineage_heart_beat() after the heartbeat was started (the thread emits it when it sees the stop flag)."""
    out = []
    started = False
    hb_running = False
    hb_done = False
    for e in p.events:
        if e.kind != 'call':
            continue
        t = e.term
        if t == 'filter.init' and e.depth == 0:
            # summarised: init emits START and starts the heartbeat (checked structurally in C18.R3)
            out.append(('START', 'Filter.init', e.node))
            hb_running = True
        elif t.endswith('.emitter.emit_stop'):
            out.append(('ABORT', site_key(e.node), e.node))
        elif t.endswith('.emitter.emit_complete'):
            out.append(('COMPLETE', site_key(e.node), e.node))
        elif t.endswith('.emitter.stop_lineage_heart_beat'):
            if hb_running and not hb_done and hb is not None and hb[1] is not None:
                hb_done = True
                out.append(('COMPLETE' if U(hb[1].func).endswith('emit_complete') else 'ABORT', 'OpenFilterLineage._heartbeat_loop:after-loop', hb))
    return out


def site_key(node: ast.AST) -> str:
    fn = enclosing_function(node)
    txt = U(node)
    same = sorted([n.lineno for n in ast.walk(fn) if isinstance(n, ast.Call) and U(n) == txt]) if fn is not None else [node.lineno]
    idx = same.index(node.lineno) if node.lineno in same else 0
    # describe the syntactic position: handler / finally nesting
    ctx = []
    child = node
    from ..model import ancestors
    for a in ancestors(node):
        if a is fn:
            break
        if isinstance(a, ast.ExceptHandler):
            ctx.append(f'except {U(a.type) if a.type else ""}')
        elif isinstance(a, ast.Try):
            if any(child is s or any(child is x for x in ast.walk(s)) for s in a.finalbody):
                ctx.append('finally')
        child = a
    return f'{qualname(node)}:{"/".join(reversed(ctx)) or "body"}#{idx}'


def init_returned(p: Path, site, kind):
    calls = [e for e in p.events if e.kind == 'call' and e.term == 'filter.init' and e.depth == 0]
    if not calls:
        return False
    return not (site == 'init' and kind is not None)


@rule('C18.R1', 'exactly one terminal lineage event per run in which START was emitted (none otherwise), for every way a run can end')
def r1(rr, repo):
    _judge(rr, repo, 'count')


@rule('C18.R2', 'the terminal event is COMPLETE iff the run ended cleanly and ABORT iff it ended by an error or interruption')
def r2(rr, repo):
    _judge(rr, repo, 'kind')


def _judge(rr, repo, what):
    m = model(repo)
    mod, run = m.mod, m.run
    n = 0
    sites_seen = {}
    hb = heartbeat_complete_site(repo)
    for site, kind, via_exit, expect in SCENARIOS:
        for prop in ('all',):
            paths = m.scenario(site, kind, prop, True, via_exit=via_exit)
            label = scenario_label(site, kind, prop, True, via_exit)
            for p in paths:
                if p.outcome is not None and p.outcome[0] == 'loopcut':
                    continue
                if kind is not None and not via_exit and not any(e.kind == 'raise' and e.raw.startswith(f'<{kind} raised by') for e in p.events):
                    continue
                if via_exit and not any(e.kind == 'call' and e.term in ('filter.exit', 'self.exit') for e in p.events):
                    continue
                if site is None and (p.outcome is not None and p.outcome[0] == 'raise'):
                    continue
                evs = lineage_events(p, mod, hb)
                start = [e for e in evs if e[0] == 'START']
                term = [e for e in evs if e[0] in ('ABORT', 'COMPLETE')]
                n += 1
                seq = ' '.join(e[0] for e in evs)
                w = f'{label}: {seq or "(no events)"}'
                want_n = 1 if start else 0        # a run that announced START owes exactly one terminal event, wherever it was cut short afterwards (also inside init)
                if what == 'count':
                    ok = len(term) == want_n
                    if ok:
                        rr.holds('exactly one terminal event', mod, run, witness=w, key=f'count-ok|{label}')
                    elif start and not term:
                        rr.violated('a run that emitted START ends without any terminal event (and nothing stops its heartbeat)', mod, run, witness=w, key=f'no-terminal|{label}')
                    else:
                        # every emission site that takes part in the malformed history is a separately keyed finding
                        for k, skey, node in term:
                            sites_seen.setdefault((k, skey), (node, w))
                    # nothing before START
                    if start:
                        rr.ob('no lineage event precedes START', evs.index(start[0]) == 0, mod, run, witness=w, key='start-first')
                else:
                    if expect is None:
                        continue
                    for k, skey, node in term:
                        if k != expect:
                            sites_seen.setdefault((k, skey), (node, w))
                    if term and all(k == expect for k, _, _ in term):
                        rr.holds('terminal event has the right kind', mod, run, witness=w, key=f'kind-ok|{label}')
    for (k, skey), (node, w) in sorted(sites_seen.items()):
        nmod = mod
        if isinstance(node, tuple):
            nmod, node = node
        else:
            nmod = mod
        if what == 'count':
            rr.violated(f'terminal-event emission site {skey} emits {k} in a run that emits more than one terminal event (or one without START)', nmod, node, witness=w, key=f'terminal-site|{k}|{skey}')
        else:
            rr.violated(f'emission site {skey} emits {k} where the run calls for the other kind', nmod, node, witness=w, key=f'terminal-kind|{k}|{skey}')
    rr.paths += m.npaths
    rr.floor('lineage scenarios judged', n, 12, mod, run)


@rule('C18.R3', 'START is emitted first (in init, before the heartbeat starts, before anything else can emit) and all events of a run carry the one run id assigned at construction')
def r3(rr, repo):
    mod, init = repo.find(f'{FILTER}::Filter.init')
    calls = [c for c in q.calls_in(init, into_functions=False) if '.emitter.' in U(c.func)]
    names = [U(c.func).split('.')[-1] for c in sorted(calls, key=lambda c: (c.lineno, c.col_offset))]
    rr.ob('Filter.init emits START and then starts the heartbeat, nothing else', names == ['emit_start', 'start_lineage_heart_beat'], mod, init, witness=str(names), key='init-order')
    for c in calls:
        g = q.guards_of(c, stop=init)
        rr.ob('the START emission is guarded only by the presence of the emitter', all('emitter' in U(t) for t, pol in g) and len(g) <= 1, mod, c, witness=' && '.join(U(t) for t, _ in g), key=f'init-guard|{U(c.func).split(".")[-1]}')
    # nothing init itself makes fail precedes START: a run that dies in init() before emit_start still goes through the handlers of
    # run(), which emit terminal events - a history without START
    starts = [c for c in calls if U(c.func).endswith('.emit_start')]
    if starts:
        top = [i for i, st in enumerate(init.body) if any(x is starts[0] for x in ast.walk(st))]
        idx = top[0] if top else -1
        early = [n for i, st in enumerate(init.body[:idx]) for n in walk_scope(st) if isinstance(n, (ast.Raise, ast.Assert)) or
                 (isinstance(n, ast.Call) and U(n.func) in ('self.exit', 'self.stop'))]
        if isinstance(init.body[idx], ast.If):   # inside the statement that holds emit_start: anything before the call
            early += [n for n in walk_scope(init.body[idx]) if (isinstance(n, (ast.Raise, ast.Assert)) or (isinstance(n, ast.Call) and U(n.func) in ('self.exit', 'self.stop'))) and n.lineno < starts[0].lineno]
        rr.ob('no raise / assert / exit() of Filter.init itself can run before START is emitted (a run that fails in init still gets its terminal events from run())',
              not early, mod, early[0] if early else starts[0], witness=U(early[0])[:120] if early else '', key='nothing-fails-before-start')
        ev = Evaluator(repo, mod)
        ev.scope_node = init
        ps = ev.run(init.body[:idx + 1])
        rr.paths += len(ps)
        k = 0
        for p in ps:
            absent = any(v is False for kk, v in p.pc if 'emitter' in kk and kk.startswith(('truthy(hasattr', 'hasattr'))) or p.facts.get('isnone(self.emitter)') is True
            if absent:
                continue
            k += 1
            st = [e for e in p.events if e.kind == 'call' and e.term.endswith('.emitter.emit_start')]
            rr.ob('with an emitter present every path through the head of Filter.init reaches emit_start', bool(st) and p.outcome is None, mod, starts[0], witness=p.pc_text()[-200:], key='start-on-every-path')
        rr.floor('paths through the head of Filter.init with an emitter', k, 1, mod, init)
    # ... and between the construction of the filter and init() nothing of run() itself can fail: whatever raises there goes through the handlers that report the end of the run - terminal
    # events for a run that has no START. Table lookups with caller-supplied keys (the propagate policy) belong before the constructor.
    m_ = model(repo)
    runfn = m_.run
    ctor_st = [st for st in ast.walk(runfn) if isinstance(st, ast.Assign) and U(st.targets[0]) == 'filter' and isinstance(st.value, ast.Call) and U(st.value.func) == 'cls']
    init_calls = [c for c in q.calls_in(runfn) if U(c.func) == 'filter.init']
    if not ctor_st or not init_calls:
        rr.unresolved('Filter.run: the construction of the filter or the call of init() was not found', m_.mod, runfn, key='nothing-fails-between-ctor-and-init')
    else:
        lo, hi = ctor_st[0].lineno, init_calls[0].lineno
        risky = [n for n in ast.walk(runfn) if hasattr(n, 'lineno') and lo < n.lineno < hi and
                 ((isinstance(n, ast.Subscript) and isinstance(n.ctx, ast.Load) and not isinstance(n.slice, ast.Constant)) or isinstance(n, (ast.Raise, ast.Assert)))]
        rr.ob('no lookup with a caller-supplied key, raise or assert of run() sits between the construction of the filter and init() (it would end in terminal events without a START)', not risky, m_.mod,
              risky[0] if risky else ctor_st[0], witness=U(risky[0])[:100] if risky else f'lines {lo}-{hi}', key='nothing-fails-between-ctor-and-init')
    lm = repo.module(LIN)
    stores = []
    for n in ast.walk(lm.tree):
        if isinstance(n, (ast.Assign, ast.AugAssign, ast.AnnAssign)):
            for t in (n.targets if isinstance(n, ast.Assign) else [n.target]):
                if isinstance(t, ast.Attribute) and t.attr == 'run_id':
                    stores.append(n)
    for mod2 in repo.modules.values():
        if mod2 is lm:
            continue
        for n in ast.walk(mod2.tree):
            if isinstance(n, (ast.Assign, ast.AugAssign)) and any(isinstance(t, ast.Attribute) and t.attr == 'run_id' and 'emitter' in U(t) for t in (n.targets if isinstance(n, ast.Assign) else [n.target])):
                rr.violated('the run id of the emitter is reassigned outside its constructor', mod2, n, key=f'runid-store|{mod2.relpath}')
    _, ctor = repo.find(f'{LIN}::OpenFilterLineage.__init__')
    # one id per run: drawn where a run begins - in emit_start, before the START event is built (the emitter object is made once at import, it is shared by every filter of a
    # forked pipeline and by a second run in the same process) - or, at the least, in the constructor; nowhere else (an id that changes mid-run splits the history)
    _, estart = repo.find(f'{LIN}::OpenFilterLineage.emit_start')
    places = [enclosing_function(n) for n in stores]
    elsewhere = [n for n, f_ in zip(stores, places) if f_ is not ctor and f_ is not estart]
    rr.ob('the run id is assigned only where a run begins (constructor, emit_start)', bool(stores) and not elsewhere, lm, elsewhere[0] if elsewhere else (stores[0] if stores else ctor),
          witness=f'{len(stores)} stores in {sorted({f_.name for f_ in places})}', key='runid-once')
    in_start = [n for n, f_ in zip(stores, places) if f_ is estart]
    for n in in_start:
        first_emit = min([c.lineno for c in q.calls_in(estart) if U(c.func).endswith('_emit_event')] or [10 ** 9])
        rr.ob('inside emit_start the id is drawn before the START event is built, unconditionally', n.lineno < first_emit and not [t for t, pol in q.guards_of(n, stop=estart)], lm, n, witness=U(n)[:60], key='runid-before-start')
    rr.ob('every run gets an id of its own: emit_start draws a fresh one (the emitter object outlives runs and is inherited by forked filter processes)', bool(in_start) and all(isinstance(n.value, ast.Call) for n in in_start), lm,
          in_start[0] if in_start else estart, witness=f'{len(in_start)} stores in emit_start', key='runid-per-run')
    # ... and the id must differ between the filter processes forked from one parent: the emitter is created at import, before run_multi() / Runner fork; whatever it holds then - a private
    # random.Random(), a pre-drawn id, a counter - is identical in every child. uuid4() / uuid1() / os.urandom / secrets read the kernel (or the clock and pid) at the moment of the call.
    def id_source(fn, depth=0):
        # -> ('ok' | 'bad' | 'unknown', witness) for the value a function returns
        rets = [r.value for r in ast.walk(fn) if isinstance(r, ast.Return) and r.value is not None]
        verdicts = []
        for r in rets:
            calls = [c for c in ast.walk(r) if isinstance(c, ast.Call)]
            names = [U(c.func) for c in calls]
            if any(nm.startswith('self._') or nm.startswith('self.rng') or 'Random' in nm or nm.startswith('random.') or 'getrandbits' in nm or 'randbytes' in nm for nm in names) or \
                    any(isinstance(a, ast.Attribute) and isinstance(a.value, ast.Name) and a.value.id == 'self' and a.attr not in ('get_run_id',) for a in ast.walk(r) if not any(a is c.func for c in calls)):
                verdicts.append(('bad', U(r)[:80]))
            elif any(nm in ('uuid.uuid4', 'uuid4', 'uuid.uuid1', 'uuid1', 'os.urandom', 'secrets.token_hex', 'secrets.token_bytes', 'secrets.token_urlsafe') for nm in names):
                verdicts.append(('ok', U(r)[:80]))
            else:
                verdicts.append(('unknown', U(r)[:80]))
        if not verdicts:
            return 'unknown', 'no return value'
        for v in ('bad', 'unknown', 'ok'):
            for vv, w in verdicts:
                if vv == v:
                    return vv, w
    for n in in_start:
        v = n.value
        if isinstance(v, ast.Call) and U(v.func).startswith('self.'):
            try:
                _, getter = repo.find(f'{LIN}::OpenFilterLineage.{U(v.func)[5:]}')
            except Unresolved:
                getter = None
            verdict, wit = id_source(getter) if getter is not None else ('unknown', U(v)[:80])
        else:
            fake = ast.parse('def f():\n    return 0').body[0]
            fake.body[0].value = v
            verdict, wit = id_source(fake)
        if verdict == 'unknown':
            rr.unresolved('where the run id comes from was not recognised (uuid4 / uuid1 / os.urandom / secrets are known to differ between forked processes)', lm, n, witness=wit, key='runid-fork-safe')
        else:
            rr.ob('the run id comes from a source that differs between processes forked from one parent (the emitter object, and any generator state it holds, is inherited by every forked filter)',
                  verdict == 'ok', lm, n, witness=wit, key='runid-fork-safe')
    _, emit = repo.find(f'{LIN}::OpenFilterLineage._emit_event')
    runs = [c for c in q.name_calls(emit, 'Run')]
    ok = bool(runs) and all(q.kwarg(c, 'runId') is not None and U(q.kwarg(c, 'runId')) == 'self.run_id' for c in runs)
    rr.ob('every event is built with runId=self.run_id', ok, lm, emit, key='runid-used')
    rr.ob('an externally supplied Run object cannot replace the run id', not any('run or' in U(n) for n in ast.walk(emit) if isinstance(n, ast.BoolOp)) or
          not any(q.kwarg(c, 'run') is not None for mod3, c in q.all_package_calls(repo) if isinstance(c.func, ast.Attribute) and c.func.attr == '_emit_event'), lm, emit, key='runid-override')


@rule('C18.R4', 'nothing follows the terminal event: wherever the filter emits the terminal event itself (exit(), the handlers of run()), the heartbeat - the only source of RUNNING events - was stopped before on '
                'every path, by a call that no unrelated switch (telemetry export on/off, ...) can skip')
def r4(rr, repo):
    mod = repo.module(FILTER)
    _, cls = repo.find(f'{FILTER}::Filter')
    methods = {x.name: x for x in cls.body if isinstance(x, (ast.FunctionDef, ast.AsyncFunctionDef))}

    def inline(call, rc, path):
        f = rc.func
        if isinstance(f, ast.Attribute) and isinstance(f.value, ast.Name) and f.value.id in ('self', 'filter') and f.attr in methods and f.attr not in ('exit', 'init', 'setup', 'shutdown', 'process', 'fini', 'run', 'loop_once'):
            return (mod, methods[f.attr], f.value)
        return None
    n = 0
    for name in ('exit', 'fini'):
        fn = methods.get(name)
        if fn is None:
            raise Unresolved(f'{FILTER}: Filter.{name} not found')
        ev = Evaluator(repo, mod, inline=inline, max_depth=2)
        ev.scope_node = fn
        ev.explore_handlers = False
        ps = ev.run(fn.body)
        rr.paths += len(ps)
        for p in ps:
            term = [e for e in p.events if e.kind == 'call' and (e.term.endswith('.emitter.emit_stop') or e.term.endswith('.emitter.emit_complete'))]
            for t in term:
                n += 1
                stops = [e for e in p.events[:p.events.index(t)] if e.kind == 'call' and e.term.endswith('.emitter.stop_lineage_heart_beat')]
                rr.ob(f'Filter.{name}: the heartbeat is stopped before the terminal event is emitted, on every path that emits it', bool(stops), mod, t.node, witness=p.pc_text()[-200:], key=f'stop-before-terminal|{name}')
    # handlers of run(): each terminal emission is directly preceded by the stop, under the same guard
    run = methods['run']
    for c in [c for c in q.calls_in(run, into_functions=False) if U(c.func).endswith('.emitter.emit_stop') or U(c.func).endswith('.emitter.emit_complete')]:
        n += 1
        st = q.enclosing_stmt(c)
        from .zmq import stmt_list_containing
        _, lst, idx = stmt_list_containing(st)
        prev = lst[idx - 1] if idx > 0 else None
        ok = prev is not None and isinstance(prev, ast.Expr) and isinstance(prev.value, ast.Call) and U(prev.value.func).endswith('.emitter.stop_lineage_heart_beat')
        rr.ob('Filter.run: every terminal emission is directly preceded by stopping the heartbeat (same guard)', ok, mod, c, witness=U(prev)[:80] if prev is not None else 'first statement of its block', key='run-stop-before-terminal')
    rr.floor('terminal emissions examined', n, 5, mod, cls)
    # "stopped" has to mean that no RUNNING can follow: either the stopper waits for the heartbeat thread, or the RUNNING emission re-checks the flag
    # under a lock the terminal emission also takes. Setting a flag alone leaves a window (thread past its loop test, waiting for the emitter lock).
    lm, stop = repo.find(f'{LIN}::OpenFilterLineage.stop_lineage_heart_beat')
    _, hb = repo.find(f'{LIN}::OpenFilterLineage._heartbeat_loop')
    joins = [c for c in q.calls_in(stop) if isinstance(c.func, ast.Attribute) and c.func.attr == 'join' and not c.args and not c.keywords]      # a join with a timeout may return while the thread still runs
    sets = [c for c in q.calls_in(stop) if isinstance(c.func, ast.Attribute) and c.func.attr == 'set']
    rr.ob('stop_lineage_heart_beat raises the stop flag, unconditionally', bool(sets) and not any(q.guards_of(c, stop=stop) for c in sets), lm, sets[0] if sets else stop, key='stop-sets-flag')
    # the flag is a latch: once raised it stays up until the next start - the loop test of a heartbeat thread that is still alive (slow emission in flight) must find it up
    _, lcls = repo.find(f'{LIN}::OpenFilterLineage')
    flag = U(sets[0].func.value) if sets else 'self._stop_event'
    clears = [c for c in q.calls_in(lcls) if isinstance(c.func, ast.Attribute) and c.func.attr == 'clear' and U(c.func.value) == flag]
    rebinds = [n_ for n_ in ast.walk(lcls) if isinstance(n_, ast.Assign) and any(U(t) == flag for t in n_.targets) and enclosing_function(n_).name != '__init__']
    starters = {enclosing_function(c).name for c in clears}
    rr.ob('the stop flag, once raised, is lowered only by starting the heartbeat again (never by the stopper or anything else): a heartbeat thread that outlives the stop call still sees it', starters <= {'start_lineage_heart_beat'} and not rebinds, lm,
          next((c for c in clears if enclosing_function(c).name != 'start_lineage_heart_beat'), rebinds[0] if rebinds else stop), witness=f'{flag}.clear() in: {sorted(starters) or "nowhere"}' + ('; flag rebound' if rebinds else ''), key='stop-flag-latched')
    term_locked = all(q.within_with(c, 'self._lock') for f_ in ('emit_stop', 'emit_complete') for c in q.calls_in(repo.find(f'{LIN}::OpenFilterLineage.{f_}')[1]) if U(c.func) == 'self._emit_event')
    recheck = any(isinstance(n_, ast.If) and 'is_set()' in U(n_.test) and q.within_with(n_, 'self._lock') for n_ in ast.walk(hb))
    rr.ob('stopping the heartbeat excludes a later RUNNING event: the stopper joins the heartbeat thread, or the heartbeat re-checks the flag and the terminal events are emitted under the same lock',
          bool(joins) or (term_locked and recheck), lm, stop, witness=f'join calls: {len(joins)}; terminal emissions under the lock: {term_locked}; flag re-checked under the lock: {recheck}', key='stop-does-not-wait')


@rule('C18.R5', 'the emitter emits what its methods are named after: emit_start -> START, emit_complete -> COMPLETE, emit_stop -> ABORT, the heartbeat loop -> RUNNING while not stopped; _emit_event hands exactly '
                'that type (and the one run id) to the client; the heartbeat is one thread, started only after the stop flag was cleared')
def r5(rr, repo):
    lm = repo.module(LIN)
    table = {'emit_start': 'START', 'emit_complete': 'COMPLETE', 'emit_stop': 'ABORT'}
    for name, kind in table.items():
        _, fn = repo.find(f'{LIN}::OpenFilterLineage.{name}')
        calls = [c for c in q.calls_in(fn) if U(c.func) == 'self._emit_event']
        kinds = []
        for c in calls:
            a = q.kwarg(c, 'event_type') if q.kwarg(c, 'event_type') is not None else (c.args[0] if c.args else None)
            kinds.append(U(a) if a is not None else None)
        rr.ob(f'{name} emits exactly one event, of type RunState.{kind}', kinds == [f'RunState.{kind}'], lm, fn, witness=str(kinds), key=f'emits|{name}')
        g = [t for c in calls for t, pol in q.guards_of(c, stop=fn)]
        rr.ob(f'{name} emits unconditionally', not g, lm, fn, witness=' && '.join(U(t)[:40] for t in g), key=f'emits-unconditional|{name}')
    _, hb = repo.find(f'{LIN}::OpenFilterLineage._heartbeat_loop')
    loops = [n for n in walk_scope(hb) if isinstance(n, ast.While)]
    okl = len(loops) == 1 and isinstance(loops[0].test, ast.UnaryOp) and isinstance(loops[0].test.op, ast.Not) and U(loops[0].test.operand) == 'self._stop_event.is_set()'
    rr.ob('the heartbeat loop runs while the stop flag is not set', okl, lm, hb, witness=U(loops[0].test) if loops else 'no loop', key='hb-loop')
    if loops:
        inl = [c for c in q.calls_in(loops[0]) if U(c.func) == 'self._emit_event']
        kinds = [U(q.kwarg(c, 'event_type') if q.kwarg(c, 'event_type') is not None else c.args[0]) for c in inl if c.args or c.keywords]
        rr.ob('each round of the heartbeat emits one RUNNING event', kinds == ['RunState.RUNNING'], lm, loops[0], witness=str(kinds), key='hb-running')
        waits = [c for c in q.calls_in(loops[0]) if U(c.func) == 'self._stop_event.wait']
        rr.ob('between two heartbeats the thread sleeps on the stop flag (it wakes at once when stopped)', len(waits) == 1, lm, loops[0], key='hb-wait')
        other = [c for c in q.calls_in(hb) if U(c.func) == 'self._emit_event' and c not in inl]
        rr.ob('outside the loop the heartbeat thread emits no RUNNING event', not [c for c in other if 'RUNNING' in U(c)], lm, hb, key='hb-no-running-outside')
    # RUNNING comes from the heartbeat loop and from nowhere else: it is the only emission the stop flag governs (C18.R4), any other site can fire after the terminal event
    lcls = repo.find(f'{LIN}::OpenFilterLineage')[1]
    elsewhere = []
    for mod2 in repo.modules.values():
        for c in q.calls_in(mod2.tree):
            if isinstance(c.func, ast.Attribute) and c.func.attr == '_emit_event' and 'RUNNING' in U(c):
                f_ = enclosing_function(c)
                in_own_loop = f_ is not None and f_.name == '_heartbeat_loop' and any(isinstance(a, ast.While) and 'is_set()' in U(a.test) for a in __import__('ofverif.model', fromlist=['ancestors']).ancestors(c))
                if not in_own_loop:      # (openfilter/lineage/openlineage_client.py is an unused older copy of the emitter with the same loop)
                    elsewhere.append((mod2, c))
    for mod2, c in elsewhere:
        rr.violated('a RUNNING event is emitted outside the heartbeat loop: nothing ties it to the stop flag, so it can follow the terminal event (e.g. a metrics export or facet update after the run ended)', mod2, c, witness=U(c)[:100],
                    key=f'running-elsewhere|{qualname(c)}')
    if not elsewhere:
        rr.holds('RUNNING events are emitted by the heartbeat loop only', lm, lcls, key='running-only-heartbeat')
    # _emit_event: the type and run id reach the client
    _, emit = repo.find(f'{LIN}::OpenFilterLineage._emit_event')
    p0 = q.func_params(emit)[1]
    evs = [c for c in q.name_calls(emit, 'RunEvent')]
    rr.floor('RunEvent constructions', len(evs), 1, lm, emit)
    for c in evs:
        et = q.kwarg(c, 'eventType')
        rr.ob('the event is built with the type it was asked to emit', et is not None and U(et) == p0, lm, c, witness=U(et) if et is not None else 'no eventType', key='event-type-passed')
        tgt = [n for n in ast.walk(emit) if isinstance(n, ast.Assign) and n.value is c]
        name = tgt[0].targets[0].id if tgt and isinstance(tgt[0].targets[0], ast.Name) else None
        sends = [x for x in q.calls_in(emit) if U(x.func) == 'self.client.emit']
        rr.ob('exactly that event is handed to the client, once', len(sends) == 1 and name is not None and [U(a) for a in sends[0].args] == [name], lm, sends[0] if sends else emit, key='event-sent')
    stores = [n for n in ast.walk(emit) if isinstance(n, (ast.Assign, ast.AugAssign)) and any(U(t).startswith('self.run_id') for t in (n.targets if isinstance(n, ast.Assign) else [n.target]))]
    rr.ob('emitting never changes the run id', not stores, lm, emit, key='emit-keeps-runid')
    # the thread
    _, start = repo.find(f'{LIN}::OpenFilterLineage.start_lineage_heart_beat')
    th = [c for c in q.calls_in(start) if U(c.func) == 'threading.Thread']
    tgt = [U(q.kwarg(c, 'target')) for c in th if q.kwarg(c, 'target') is not None]
    rr.ob('start_lineage_heart_beat starts one thread that runs the heartbeat loop', tgt == ['self._heartbeat_loop'] and any(U(c.func).endswith('.start') for c in q.calls_in(start)), lm, start, witness=str(tgt), key='hb-thread')
    alive = [n for n in walk_scope(start) if isinstance(n, ast.If) and 'is_alive()' in U(n.test) and any(isinstance(b, ast.Return) for b in n.body)]
    rr.ob('a second start while the heartbeat is alive does nothing (never two heartbeat threads)', bool(alive), lm, start, key='hb-single')
    clears = [c for c in q.calls_in(start) if U(c.func) == 'self._stop_event.clear']
    rr.ob('the stop flag is cleared before the thread is started', bool(clears) and bool(th) and clears[0].lineno < th[0].lineno, lm, start, key='hb-clear-first')


@rule('C18.R6', "START cannot be lost to the spelling of a configuration key: every key that becomes a field of the facet dataclass goes through the key normaliser AFTER the configuration is flattened (nested keys "
                "become field names too), and the normaliser is total - it turns any key into a string, replaces every character outside [0-9A-Za-z_], and re-spells what is still not an identifier, a keyword, "
                "or a name the facet defines itself; a key that make_dataclass rejects raises inside _emit_event's try/except and the event is only logged")
def r6(rr, repo):
    import re._parser as sp
    import re._constants as sc
    lm, mk = repo.find(f'{LIN}::create_openfilter_facet_with_fields')
    _, norm = repo.find(f'{LIN}::normalize_facet_keys')
    # 1. order: the last rebinding of the dict the fields are built from is the normaliser, applied to the flattened dict
    mdc = [c for c in q.calls_in(mk) if U(c.func) == 'make_dataclass']
    rr.floor('make_dataclass calls building the facet', len(mdc), 1, lm, mk)
    loops = [n for n in walk_scope(mk) if isinstance(n, ast.For) and U(n.iter).endswith('.items()') and any(isinstance(c, ast.Call) and isinstance(c.func, ast.Attribute) and c.func.attr == 'append' for c in ast.walk(n))]
    if not loops:
        raise Unresolved(f'{LIN}: create_openfilter_facet_with_fields has no loop that turns the items of a dict into dataclass fields')
    src = U(loops[0].iter)[:-len('.items()')]
    binds = [n for n in walk_scope(mk) if isinstance(n, ast.Assign) and any(U(t) == src for t in n.targets) and n.lineno < loops[0].lineno]
    calls = [(U(n.value.func) if isinstance(n.value, ast.Call) else None) for n in binds]
    def applied(call):     # names of the helper functions applied, outermost first, following nesting f(g(x))
        out = []
        while isinstance(call, ast.Call) and isinstance(call.func, ast.Name):
            out.append(call.func.id)
            call = call.args[0] if call.args else None
        return out
    chain = []
    for n in binds:
        chain = applied(n.value) + chain if isinstance(n.value, ast.Call) and n.value.args and U(n.value.args[0]) == src else applied(n.value)
    ok = 'normalize_facet_keys' in chain and 'flatten_dict' in chain and chain.index('normalize_facet_keys') < chain.index('flatten_dict')
    rr.ob('the key normaliser is applied to the flattened dict (it is the last thing done to the keys before they become field names)', ok, lm, binds[-1] if binds else mk,
          witness=' <- '.join(chain) or 'no helper applied', key='normalise-after-flatten')
    # 2. the normaliser is total
    loop = [n for n in walk_scope(norm) if isinstance(n, ast.For) and U(n.iter).endswith('.items()')]
    if len(loop) != 1 or not isinstance(loop[0].target, ast.Tuple):
        raise Unresolved(f'{LIN}: normalize_facet_keys is no longer one loop over the items of its argument')
    k = U(loop[0].target.elts[0])
    first = [n for n in loop[0].body if isinstance(n, ast.Assign) and U(n.targets[0]) == k]
    def judge(text, ok, known_bad, node, witness, key):
        # recognised and right -> holds; the known insufficient shape -> violated; anything else is an idiom this rule does not know -> unresolved, never an alarm
        if ok or known_bad:
            rr.ob(text, ok, lm, node, witness=witness, key=key)
        else:
            rr.unresolved(text + ' - the normaliser is written in a way this rule does not recognise', lm, node, witness=witness, key=key)
    str_ok = bool(first) and any(isinstance(c, ast.Call) and U(c.func) == 'str' and U(c.args[0]) == k for c in ast.walk(first[0].value))
    raw_method = bool(first) and not str_ok and any(isinstance(c, ast.Call) and ((isinstance(c.func, ast.Attribute) and U(c.func.value) == k) or (U(c.func) == 're.sub' and len(c.args) == 3 and U(c.args[2]) == k))
                                                       for c in ast.walk(first[0].value))      # a str method, or re.sub, applied to the key as it came in
    judge('the normaliser accepts any key: the first thing it does is turn the key into a string', str_ok, raw_method or not first, first[0] if first else loop[0],
          U(first[0].value)[:80] if first else 'no rebinding of the key', 'normalise-str')
    subs = [c for c in q.calls_in(loop[0]) if U(c.func) == 're.sub' and len(c.args) == 3 and any(isinstance(x, ast.Name) and x.id == k for x in ast.walk(c.args[2])) and q.const_str(c.args[0]) is not None]
    cls_ok, wit = False, 'no re.sub over the key'
    for c in subs:
        try:
            parsed = list(sp.parse(c.args[0].value))
        except Exception:
            continue
        if len(parsed) == 1 and parsed[0][0] is sc.IN and parsed[0][1] and parsed[0][1][0][0] is sc.NEGATE:
            allowed = set()
            for op, av in parsed[0][1][1:]:
                if op is sc.LITERAL:
                    allowed.add(chr(av))
                elif op is sc.RANGE:
                    allowed |= {chr(x) for x in range(av[0], av[1] + 1)}
                else:
                    allowed.add('<category>')
            ident = set('0123456789abcdefghijklmnopqrstuvwxyzABCDEFGHIJKLMNOPQRSTUVWXYZ_')
            rep = q.const_str(c.args[1])
            cls_ok = allowed <= ident and rep is not None and rep != '' and set(rep) <= ident
            wit = f're.sub({c.args[0].value!r}, {rep!r}, {k}): keeps {len(allowed)} characters, all identifier characters: {allowed <= ident}'
    rebinds = [n for n in ast.walk(loop[0]) if isinstance(n, ast.Assign) and U(n.targets[0]) == k]
    def literal_edits_only(v):    # str(k) / k.lstrip(..) / k.replace('-', '_') / k[0].lower() + k[1:]: a finite list of characters is dealt with, every other one passes
        return all(not isinstance(c, ast.Call) or U(c.func) in ('str',) or (isinstance(c.func, ast.Attribute) and c.func.attr in ('lstrip', 'rstrip', 'strip', 'replace', 'lower', 'upper')) for c in ast.walk(v))
    judge('every character that cannot be part of an identifier is replaced (a negated class of identifier characters, replaced by identifier characters)', cls_ok, not subs and all(literal_edits_only(n.value) for n in rebinds),
          subs[0] if subs else loop[0], wit, 'normalise-class')
    # no key comes out with a leading underscore (the facet defines '_producer' itself; a key like '-producer' must not turn into it): leading underscores are stripped from
    # the RESULT of the substitution, not before it
    if subs:
        sub = subs[0]
        par = parent(sub)
        inside_arg = any(isinstance(c, ast.Call) and isinstance(c.func, ast.Attribute) and c.func.attr == 'lstrip' for c in ast.walk(sub.args[2]))       # re.sub(.., .., <k>.lstrip('_')): stripped before
        after_sub = (isinstance(par, ast.Attribute) and par.attr == 'lstrip') or \
            any(isinstance(c, ast.Call) and isinstance(c.func, ast.Attribute) and c.func.attr == 'lstrip' and U(c.func.value) == k and c.lineno > sub.lineno for c in q.calls_in(loop[0]))
        before_only = not after_sub and (inside_arg or any(isinstance(c, ast.Call) and isinstance(c.func, ast.Attribute) and c.func.attr == 'lstrip' for c in q.calls_in(loop[0])))
        judge("leading underscores are stripped after the character substitution (so that '-producer' cannot become the facet's own '_producer')", after_sub, before_only or not any(
              isinstance(c, ast.Call) and isinstance(c.func, ast.Attribute) and c.func.attr == 'lstrip' for c in q.calls_in(loop[0])), sub, U(q.enclosing_stmt(sub))[:100], 'normalise-no-leading-underscore')
    fall = [n for n in loop[0].body if isinstance(n, ast.If) and 'isidentifier()' in U(n.test) and 'iskeyword(' in U(n.test)]
    own = sorted({e.elts[0].value for e in ast.walk(mk) if isinstance(e, ast.Tuple) and len(e.elts) == 3 and q.const_str(e.elts[0]) is not None})
    fb_ok = False
    inverted = False
    if fall:
        t = fall[0].test
        parts = [U(v) for v in t.values] if isinstance(t, ast.BoolOp) and isinstance(t.op, ast.Or) else [U(t)]
        vals = t.values if isinstance(t, ast.BoolOp) and isinstance(t.op, ast.Or) else [t]
        listed = set()
        for v in vals:      # `k in (<names>)` / `k == <name>`: a membership test in the positive sense, not `k not in (..)`
            if isinstance(v, ast.Compare) and len(v.ops) == 1 and U(v.left) == k:
                if isinstance(v.ops[0], ast.In) and isinstance(v.comparators[0], (ast.Tuple, ast.List, ast.Set)):
                    listed |= {e.value for e in v.comparators[0].elts if isinstance(e, ast.Constant)}
                elif isinstance(v.ops[0], ast.Eq) and isinstance(v.comparators[0], ast.Constant):
                    listed.add(v.comparators[0].value)
        names_covered = all(nm.lstrip('_') != nm or nm in listed for nm in own)     # names with a leading '_' cannot collide: the normaliser strips leading underscores
        # ... and what the facet's BASE class defines without a leading underscore (openlineage's BaseFacet has a read-only property 'skip_redact': a field of that name makes the
        # generated __init__ fail, and START is lost): the test asks the base class itself, or lists every such name
        for b in [U(e) for c in q.calls_in(mk) if U(c.func) == 'make_dataclass' for kw in c.keywords if kw.arg == 'bases' and isinstance(kw.value, (ast.Tuple, ast.List)) for e in kw.value.elts]:
            asks = any(isinstance(v, ast.Call) and U(v.func) == 'hasattr' and len(v.args) == 2 and U(v.args[0]) == b and U(v.args[1]) == k for v in vals) or \
                any(isinstance(v, ast.Compare) and len(v.ops) == 1 and isinstance(v.ops[0], ast.In) and U(v.left) == k and U(v.comparators[0]) in (f'dir({b})', f'vars({b})', f'{b}.__dict__') for v in vals)
            pub = _library_public_names(repo, lm, b)
            if not asks and (pub is None or not pub <= listed):
                names_covered = False
                own = own + [f'{b}: {sorted(pub - listed) if pub is not None else "not asked"}']
        inverted = any(isinstance(v, ast.Compare) and len(v.ops) == 1 and U(v.left) == k and isinstance(v.ops[0], (ast.NotIn, ast.NotEq)) for v in vals)      # re-spells everything BUT the names that clash
        pre = [n for n in fall[0].body if isinstance(n, ast.Assign) and U(n.targets[0]) == k and isinstance(n.value, ast.JoinedStr) and n.value.values and isinstance(n.value.values[0], ast.Constant)
               and str(n.value.values[0].value)[:1].isalpha() and str(n.value.values[0].value).isidentifier()]
        rest_ok = f'not {k}.isidentifier()' in parts and f'iskeyword({k})' in parts and bool(pre) and fall[0] is [n for n in loop[0].body if isinstance(n, (ast.If, ast.Assign)) and n.lineno < max(x.lineno for x in loop[0].body)][-1]
        fb_ok = rest_ok and names_covered
        inverted = inverted or (rest_ok and not names_covered)       # the fallback is there and complete but for a name the facet (or its base class) defines: the recognised insufficient shape
    # ... and the key that is stored is the key that was tested: nothing re-spells it between the fallback and the store (a first letter lower-cased in the store itself turns 'Type' / 'Class' into
    # the reserved names the test has just let through)
    kstores = [n for n in ast.walk(loop[0]) if isinstance(n, ast.Assign) and isinstance(n.targets[0], ast.Subscript) and U(n.targets[0].value) != k and any(isinstance(x, ast.Name) and x.id == k for x in ast.walk(n.targets[0].slice))]
    for n in kstores:
        rr.ob('the key is stored exactly as it left the last test (no re-spelling inside the store)', isinstance(n.targets[0].slice, ast.Name) and n.targets[0].slice.id == k, lm, n, witness=U(n.targets[0])[:80], key='normalise-stored-as-tested')
    if fall:
        later = [n for n in loop[0].body if isinstance(n, (ast.Assign, ast.AugAssign, ast.If)) and n.lineno > fall[0].lineno and any(isinstance(a, ast.Assign) and U(a.targets[0]) == k for a in ast.walk(n))]
        rr.ob('nothing rebinds the key after the fallback for reserved names', not later, lm, later[0] if later else fall[0], witness=U(later[0])[:80] if later else '', key='normalise-nothing-after-fallback')
    tests_key = [n for n in loop[0].body if isinstance(n, ast.If) and any(isinstance(x, ast.Name) and x.id == k for x in ast.walk(n.test)) and any(isinstance(a, ast.Assign) and U(a.targets[0]) == k for a in ast.walk(n))]
    only_case = all('isupper()' in U(n.test) or 'islower()' in U(n.test) for n in tests_key)      # the only conditional re-spelling concerns letter case: keywords, digits, clashes pass
    judge("what is still not a usable field name (empty, leading digit, a keyword, a name the facet defines itself) is re-spelled with an identifier prefix, as the last step before the key is stored", fb_ok, (not fall and only_case) or (bool(fall) and inverted),
          fall[0] if fall else loop[0], (U(fall[0].test)[:140] if fall else 'no isidentifier()/iskeyword() fallback') + f'; facet-defined names: {own}', 'normalise-fallback')


def _library_public_names(repo, mod, cls):
    """Names without a leading underscore that the imported library class `cls` (and its bases in the same file) defines - read off the library's source, nothing imported. None if not found."""
    import sys, os
    imp = [n for n in mod.tree.body if isinstance(n, ast.ImportFrom) and any((a.asname or a.name) == cls for a in n.names)]
    if not imp or imp[0].level:
        return None
    orig = next(a.name for a in imp[0].names if (a.asname or a.name) == cls)
    rel = imp[0].module.replace('.', '/')
    for d in sys.path:
        for cand in (os.path.join(d, rel + '.py'), os.path.join(d, rel, '__init__.py')):
            if d and os.path.isfile(cand):
                try:
                    tree = ast.parse(open(cand, encoding='utf-8').read())
                except Exception:
                    return None
                classes = {n.name: n for n in tree.body if isinstance(n, ast.ClassDef)}
                out, todo, seen = set(), [orig], set()
                while todo:
                    c = todo.pop()
                    if c in seen:
                        continue
                    seen.add(c)
                    if c not in classes:
                        if c in ('object',):
                            continue
                        return None        # a base defined elsewhere: not followed
                    for st in classes[c].body:
                        if isinstance(st, (ast.FunctionDef, ast.AsyncFunctionDef)):
                            out.add(st.name)
                        elif isinstance(st, ast.AnnAssign) and isinstance(st.target, ast.Name):
                            out.add(st.target.id)
                        elif isinstance(st, ast.Assign):
                            out |= {t.id for t in st.targets if isinstance(t, ast.Name)}
                    todo += [U(b) for b in classes[c].bases]
                return {n for n in out if not n.startswith('_')}
    return None


@rule('C18.R7', "a terminal event (and START) cannot be lost to what the heartbeat happens to carry: _emit_event takes the heartbeat facets (self.facets - metric data swapped in by the exporter, whatever it holds) only "
                "for RUNNING events; START, COMPLETE and ABORT are built from the facets they are given (none for the terminal events). And no VALUE can make the facet unbuildable: every field of the facet "
                "dataclass gets its value through default_factory (a plain default is refused for unhashable values)")
def r7(rr, repo):
    lm, em = repo.find(f'{LIN}::OpenFilterLineage._emit_event')
    def is_running_test(t, positive=True):
        if isinstance(t, ast.Compare) and len(t.ops) == 1 and isinstance(t.ops[0], (ast.Eq, ast.Is) if positive else (ast.NotEq, ast.IsNot)):
            sides = {U(t.left), U(t.comparators[0])}
            return 'event_type' in sides and any(x.endswith('RunState.RUNNING') or x == 'RUNNING' for x in sides)
        return False
    uses = [x for x in ast.walk(em) if isinstance(x, ast.Attribute) and U(x) == 'self.facets' and isinstance(x.ctx, ast.Load)]
    rr.floor('reads of the heartbeat facets in _emit_event', len(uses), 1, lm, em)
    from ..model import ancestors as _anc
    for u in uses:
        governed = False
        child = u
        for a in _anc(u):
            if isinstance(a, ast.IfExp):
                in_body = any(x is child for x in ast.walk(a.body)) if a.body is not child else True
                in_body = a.body is child or any(x is u for x in ast.walk(a.body))
                in_else = a.orelse is child or any(x is u for x in ast.walk(a.orelse))
                if (in_body and is_running_test(a.test, True)) or (in_else and is_running_test(a.test, False)):
                    governed = True
            if a is em:
                break
            child = a
        if not governed:
            governed = any((pol and is_running_test(t, True)) or (not pol and is_running_test(t, False)) for t, pol in q.guards_of(u, stop=em))
        rr.ob('the heartbeat facets (self.facets) are read only where the event being built is known to be a RUNNING event', governed, lm, u,
              witness=U(q.enclosing_stmt(u))[:120], key='terminal-payload-not-heartbeat')
    # the terminal events are emitted WITHOUT facets (emit_stop / emit_complete pass none): the payload has to tolerate None, `dict(None)` raises inside the try/except
    pay = [n for n in walk_scope(em) if isinstance(n, ast.Assign) and isinstance(n.value, ast.Call) and U(n.value.func) == 'dict' and len(n.value.args) == 1]
    for n in pay:
        a = n.value.args[0]
        tolerant = (isinstance(a, ast.BoolOp) and isinstance(a.op, ast.Or) and isinstance(a.values[-1], ast.Dict) and not a.values[-1].keys) or \
            (isinstance(a, ast.IfExp) and any(isinstance(x, ast.Dict) and not x.keys for x in (a.body, a.orelse)))
        bare = isinstance(a, ast.Name)
        if tolerant or bare:
            rr.ob('the payload of an event that is given no facets (every terminal event) is an empty mapping, not dict(None)', tolerant, lm, n, witness=U(n.value)[:60], key='payload-tolerates-none')
        else:
            rr.unresolved('the payload of an event is built in a way this rule does not know', lm, n, witness=U(n.value)[:60], key='payload-tolerates-none')
    # events go out unless reporting is switched off: the client.emit call sits under `not <OPENLINEAGE_DISABLED is true>`, not under its negation
    emits = [c for c in q.calls_in(em) if U(c.func) == 'self.client.emit']
    rr.floor('client.emit calls in _emit_event', len(emits), 1, lm, em)
    for c in emits:
        g = [(t, pol) for t, pol in q.guards_of(c, stop=em) if 'OPENLINEAGE_DISABLED' in U(t)]
        okd = False
        for t, pol in g:
            inner, neg = (t.operand, True) if isinstance(t, ast.UnaryOp) and isinstance(t.op, ast.Not) else (t, False)
            if isinstance(inner, ast.Compare) and len(inner.ops) == 1 and isinstance(inner.ops[0], (ast.In, ast.NotIn)):
                lits = {q.const_str(e) for e in getattr(inner.comparators[0], 'elts', [])}
                truthy = {'true', '1'} <= lits
                disabled_test = isinstance(inner.ops[0], ast.In)            # `<value> in ('true', '1')` means "disabled"
                says_disabled = disabled_test != neg                         # after an outer `not`
                okd = truthy and (pol != says_disabled)                      # the emit sits on the branch where it is NOT disabled
        if g:
            rr.ob("an event is handed to the client exactly when reporting is not switched off (OPENLINEAGE_DISABLED not 'true' / '1')", okd, lm, c, witness=' && '.join(('' if pol else 'not ') + U(t)[:100] for t, pol in g), key='emit-unless-disabled')
        else:
            rr.unresolved('_emit_event no longer tests OPENLINEAGE_DISABLED around client.emit', lm, c, key='emit-unless-disabled')
    _, mk = repo.find(f'{LIN}::create_openfilter_facet_with_fields')
    fcalls = [c for c in q.calls_in(mk) if U(c.func) == 'field']
    dyn = [c for c in fcalls if any(isinstance(x, ast.Name) and x.id == 'v' for k in c.keywords for x in ast.walk(k.value))]
    rr.floor('facet fields built from configuration / metric values', len(dyn), 1, lm, mk)
    for c in dyn:
        rr.ob('a facet field takes its value through default_factory (no value is refused as a mutable / unhashable default)', all(k.arg == 'default_factory' for k in c.keywords if any(isinstance(x, ast.Name) and x.id == 'v' for x in ast.walk(k.value))), lm, c,
              witness=U(c)[:80], key='facet-field-factory')
