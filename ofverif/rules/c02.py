"""C02 - at most once, in order, unaltered, only subscribed topics (necessary structural conditions)."""

from __future__ import annotations

import ast
import re

from . import rule
from .zmq import anchors, Z, ret_const, stmt_list_containing
from .c01 import pm_paths, sync_region, RECVD_STORE
from ..model import Unresolved, walk_scope, parent, enclosing_function, qualname
from ..paths import U, Path, Evaluator
from ..strtmpl import TemplateEval, tstartswith, show, lit
from .. import q


@rule('C02.R1', 'an older id is discarded before any store, and both callers of process_msg skip a discarded message without touching their expected id')
def r1(rr, repo):
    za = anchors(repo)
    paths, _ = pm_paths(za)
    rr.paths += len(paths)
    n = 0
    for p in paths:
        if q.order(p, za.r_mid, za.pm_exp) == '<':
            n += 1
            isret, isconst, val = ret_const(p)
            stores = [e for e in p.events if e.kind in ('store', 'augstore', 'del') and RECVD_STORE.search(e.term)] + \
                [e for e in p.events if e.kind == 'call' and (e.term.endswith('.new_recv') or e.term.endswith('.init_recvd'))]
            rr.ob('older id: return None, no store into any set', isret and isconst and val is None and not stores, za.mod,
                  stores[0].node if stores else za.R_pm, witness=f'{p.pc_text()} => {p.outcome_text()}', key='older')
    rr.floor('paths of process_msg for an older id', n, 1, za.mod, za.R_pm)
    sync, slst, eph, elst = sync_region(za)
    for call, lst, label in ((sync, slst, 'synchronized'), (eph, elst, 'ephemeral')):
        ev = za.ev()
        ps = ev.run(lst, za.start(za.R_once))
        rr.paths += len(ps)
        resterm = None
        k = 0
        for p in ps:
            nones = [key for key, v in p.facts.items() if key.startswith('isnone(process_msg(') and v is True]
            if not nones:
                continue
            k += 1
            after = False
            bad = []
            for e in p.events:
                if e.kind == 'call' and e.node is call:
                    after = True
                    continue
                if after and (e.kind in ('store', 'augstore') and e.term.endswith('.min_recv_id') or e.kind == 'bind' and e.term == 'min_recv_id'):
                    bad.append(e)
            ok = not bad and p.outcome is not None and p.outcome[0] == 'continue'
            rr.ob(f'{label} caller skips a discarded message (continue) and leaves its expected id alone', ok, za.mod,
                  bad[0].node if bad else call, witness=f'{p.pc_text()} => {p.outcome_text()}', key=f'skip|{label}')
        rr.floor(f'{label} caller: paths where process_msg returned None', k, 1, za.mod, call)


@rule('C02.R2', 'receiver ids only grow: prev_id is stored only at construction and as the id of the set being returned; the expected id '
                'is (re)bound only at entry and to the id of a message process_msg accepted')
def r2(rr, repo):
    za = anchors(repo)
    stores = q.stores_to_attr(za.R_cls, 'prev_id')
    n_init = n_ret = 0
    for st, tgt in stores:
        fn = enclosing_function(st)
        if fn is za.R_init and isinstance(st, ast.Assign) and U(st.value) in ('MSG_ID_INITIAL_PREV', '-1'):
            n_init += 1
            rr.holds('prev_id initialised to the pre-initial id', za.mod, st, key='prev-init')
        elif fn is za.R_recv and isinstance(st, ast.Assign) and isinstance(st.value, ast.Name):
            # must be on a path that returns a set: the statement list also contains the `return (data, ZMQStateSend(..))`
            _, lst, idx = stmt_list_containing(st)
            rets = [s for s in lst[idx:] if isinstance(s, ast.Return) and isinstance(s.value, ast.Tuple)]
            ok = bool(rets) and U(rets[0].value.elts[1].args[0]) == U(st.value) if rets and isinstance(rets[0].value.elts[1], ast.Call) and rets[0].value.elts[1].args else False
            n_ret += 1
            rr.ob('prev_id := the id of the set being returned', ok, za.mod, st, key='prev-return')
        elif fn is za.R_recv and isinstance(st, ast.Assign) and isinstance(st.value, ast.Call) and U(st.value.func) == 'max' and any(U(a) == 'self.prev_id' for a in st.value.args):
            # monotone by construction: prev_id := max(prev_id, <expected id> - 1) when a call gives up (timeout) after adopting a newer id
            _, lst, idx = stmt_list_containing(st)
            gives_up = any(isinstance(s_, ast.Return) and (s_.value is None or (isinstance(s_.value, ast.Constant) and s_.value.value is None)) for s_ in lst[idx:])
            rr.ob('prev_id is raised monotonically (max(prev_id, expected - 1)) on the give-up exit of recv()', gives_up and any('- 1' in U(a) for a in st.value.args), za.mod, st, key='prev-timeout')
        else:
            rr.violated('unexpected store to prev_id (ids could rewind)', za.mod, st, key=f'prev-other|{qualname(st)}')
    rr.floor('stores to ZMQReceiver.prev_id', n_init + n_ret, 2, za.mod, za.R_cls)
    # binds of the shared expected id
    sync, slst, _, _ = sync_region(za)
    shared = sync.args[0].id
    binds = []
    for n in ast.walk(za.R_recv):
        if isinstance(n, ast.Assign) and any(isinstance(t, ast.Name) and t.id == shared for t in n.targets):
            binds.append(n)
        elif isinstance(n, (ast.AugAssign, ast.NamedExpr)) and isinstance(n.target, ast.Name) and n.target.id == shared:
            binds.append(n)
    k = 0
    for b in binds:
        fn = enclosing_function(b)
        if fn is za.R_recv and parent(b) is za.R_recv:
            k += 1
            from .c01 import entry_forms
            entry_forms(rr, za, shared)   # prev_id + 1, or max(coupled sender's id, prev_id + 1): never below what was delivered / adopted
        elif fn is za.R_once and isinstance(b, ast.Assign) and b in slst:
            ok = U(b.value) == za.r_mid and slst.index(b) > slst.index(q.enclosing_stmt(sync))
            k += 1
            rr.ob('inside recv_once the expected id is only raised to the id of the message just accepted, after process_msg', ok, za.mod, b, key='exp-adopt')
        else:
            rr.violated('unexpected rebinding of the expected id', za.mod, b, key=f'exp-other|{qualname(b)}')
    rr.floor('bindings of the shared expected id', k, 2, za.mod, za.R_recv)


def is_control_msg(term: ast.AST) -> bool | None:
    """Does a send_multipart argument denote a control message (mid is a negative literal)?"""
    mids = []
    for n in ast.walk(term):
        if isinstance(n, ast.Dict):
            for k, v in zip(n.keys, n.values):
                if k is not None and q.const_str(k) == 'mid':
                    mids.append(v)
    if not mids:
        return None
    ok, v = Evaluator.const_of(mids[0])
    return ok and isinstance(v, int) and v < 0


def maybe_paths(za):
    return za.paths('maybe')


def data_publishes(p: Path):
    return [e for e in p.events if e.kind == 'call' and e.term.endswith('.send_multipart') and e.value is not None
            and e.value.args and is_control_msg(e.value.args[0]) is False]


@rule('C02.R3', 'publisher ids only grow and each publish consumes its id: every publishing path stores min_send_id = id + 1; '
                'a send for an id already passed returns without publishing; the only other store is the guarded fast-forward')
def r3(rr, repo):
    za = anchors(repo)
    paths = maybe_paths(za)
    rr.paths += len(paths)
    n = 0
    for p in paths:
        pubs = data_publishes(p)
        if not pubs:
            continue
        n += 1
        st = [e for e in p.events if e.kind == 'store' and e.term == 'self.min_send_id']
        ok = bool(st) and st[-1].args[0] in ('msg_id + 1', '1 + msg_id')     # before the first frame or after the last: either way the id is gone when the call returns
        isret, isconst, val = ret_const(p)
        rr.ob('a path that publishes data consumes the id (self.min_send_id = msg_id + 1) and reports success', ok and isret and isconst and val is True,
              za.mod, pubs[-1].node, witness=f'{p.pc_text()} => {p.outcome_text()}', key='consume')
    rr.floor('publishing paths of send_maybe', n, 1, za.mod, za.S_maybe)
    # early return in send()
    idx = next(i for i, s in enumerate(za.S_send.body) if isinstance(s, ast.FunctionDef))
    ev = za.ev()
    hp = ev.run(za.S_send.body[:idx])
    rr.paths += len(hp)
    param = q.func_params(za.S_send)[2]
    k = 0
    for p in hp:
        if p.facts.get(f'isnone({param})') is False:
            rel = q.order(p, f'{param}.msg_id', 'self.min_send_id')
            if rel == '<':
                k += 1
                rr.ob('send() of an id the publisher already passed returns before any publish', p.outcome is not None and p.outcome[0] == 'return',
                      za.mod, za.S_send, witness=f'{p.pc_text()} => {p.outcome_text()}', key='stale-send')
            elif rel is None:
                rr.violated('send() does not compare the requested id with min_send_id', za.mod, za.S_send, witness=p.pc_text(), key='stale-send-nocmp')
    rr.floor('paths of send() for a stale id', k, 1, za.mod, za.S_send)
    # all stores to min_send_id
    allst = q.stores_to_attr(za.S_cls, 'min_send_id')
    kinds = {}
    for st, tgt in allst:
        fn = enclosing_function(st)
        kinds.setdefault(fn.name if fn else '?', []).append(st)
    for name, sts in kinds.items():
        if name not in ('__init__', za.S_maybe.name, za.S_poll.name):
            for st in sts:
                rr.violated('unexpected store to min_send_id', za.mod, st, key=f'minsend-other|{name}')
    rr.floor('stores to min_send_id (init, consume, fast-forward)', len(allst), 3, za.mod, za.S_cls)
    # fast-forward guard
    pp = za.paths('poll')
    rr.paths += len(pp)
    k = 0
    for p in pp:
        for e in p.events:
            if e.kind == 'store' and e.term == 'self.min_send_id':
                k += 1
                v = e.value
                base = None
                if isinstance(v, ast.BinOp) and isinstance(v.op, ast.Add) and isinstance(v.right, ast.Constant) and v.right.value == 1:
                    base = U(v.left)
                rel = q.order(p, base, 'msg_id') if base else None
                ephs = [val for key, val in p.pc[:e.pc_len] if key.startswith('truthy(') and ('eph' in key)]
                ok = base is not None and rel in ('=', '>') and bool(ephs) and ephs[-1] is False and f"{za.s_env}['mid']" in base.replace('"', "'") or \
                    (base is not None and rel in ('=', '>') and bool(ephs) and ephs[-1] is False and 'mid' in base)
                rr.ob('fast-forward: min_send_id = <requested id> + 1 only when the requested id >= the id being sent and the client is not ephemeral',
                      ok, za.mod, e.node, witness=f'{p.pc_text(e.pc_len)} => {e!r}', key=f'ff|rel={rel}|eph={ephs[-1] if ephs else None}')
                nxt = p.outcome
                rr.ob('after a fast-forward the pending send is abandoned (poll_recv returns None)', nxt is not None and nxt[0] == 'return' and
                      (nxt[1] is None or (isinstance(nxt[1], ast.Constant) and nxt[1].value is None)), za.mod, e.node, witness=p.outcome_text(), key='ff-return')
    rr.floor('fast-forward stores reached in poll_recv', k, 1, za.mod, za.S_poll)


@rule('C02.R4', 'assembly of the returned dict: every data[t] = frame uses the mapped topic, after the duplicate test raised for a clash, and skips missing frames')
def r4(rr, repo):
    za = anchors(repo)
    loops = [n for n in walk_scope(za.R_recv) if isinstance(n, ast.For) and any(isinstance(s, ast.Assign) and any(isinstance(t, ast.Subscript) and U(t.value) == 'data' for t in s.targets) for s in ast.walk(n))]
    loops = [l for l in loops if not any(q.inside(l, m) for m in loops)]
    # a known-bad way of applying the subscription's topic map: renaming in place while walking the MAP (`d[dst] = d.pop(src)` for
    # src, dst in topic_map.items()) applies a second mapping to an already renamed frame whenever one mapping's destination is
    # another mapping's source ("a>b;b>c", "a>b;b>a"): a frame is delivered under a name its subscription does not map it to, another is lost
    for n in walk_scope(za.R_recv):
        if isinstance(n, ast.For) and 'topic_map' in U(n.iter) and isinstance(n.target, ast.Tuple) and len(n.target.elts) == 2 and all(isinstance(e, ast.Name) for e in n.target.elts):
            src, dst = n.target.elts[0].id, n.target.elts[1].id
            for s_ in ast.walk(n):
                if isinstance(s_, ast.Assign) and len(s_.targets) == 1 and isinstance(s_.targets[0], ast.Subscript) and U(s_.targets[0].slice) == dst:
                    d = U(s_.targets[0].value)
                    v = s_.value
                    reads_same = (isinstance(v, ast.Call) and U(v.func) == f'{d}.pop' and v.args and U(v.args[0]) == src) or (isinstance(v, ast.Subscript) and U(v.value) == d and U(v.slice) == src)
                    if reads_same:
                        rr.violated('the topic map is applied by renaming in place while walking the map: mappings whose destination is another mapping\'s source cascade (a>b;b>c delivers a as c and loses b)',
                                    za.mod, s_, witness=U(s_), key='rename-cascade')
    if not loops and any(o.status == 'VIOLATED' for o in rr.obligations):
        return
    rr.floor('assembly loops in recv()', len(loops), 1, za.mod, za.R_recv)
    for loop in loops:
        ev = za.ev(unroll_for=1)
        ps = ev.run([loop], za.start(za.R_once))
        rr.paths += len(ps)
        k = 0
        for p in ps:
            for e in p.events:
                if e.kind == 'store' and e.term.startswith('data['):
                    k += 1
                    keyt = e.term[5:-1]
                    mapped = '.topic_map.get(' in keyt or 'topic_map.get(' in keyt
                    dup = p.facts.get(f'in({keyt}, data)')
                    notnone = [v for kk, v in p.pc[:e.pc_len] if kk.startswith('isnone(') and '__elem__' in kk]
                    rr.ob('stored under the subscription-mapped topic name', mapped, za.mod, e.node, witness=keyt, key='mapped')
                    rr.ob('stored only after the duplicate-destination test failed', dup is False, za.mod, e.node, witness=p.pc_text(e.pc_len), key='dup-test')
                    rr.ob('missing (None) frames are skipped', bool(notnone) and notnone[-1] is False, za.mod, e.node, witness=p.pc_text(e.pc_len), key='none-skip')
            dups = [kk for kk, v in p.facts.items() if kk.startswith('in(') and kk.endswith(', data)') and v is True]
            if dups:
                rr.ob('a duplicate destination topic raises', p.outcome is not None and p.outcome[0] == 'raise', za.mod, loop, witness=p.pc_text(), key='dup-raise')
        rr.floor('stores data[t] = frame', k, 1, za.mod, loop)


def publisher_templates(za):
    """Templates of the first frame of a data message for hidden / normal topics, and of control messages."""
    paths = maybe_paths(za)
    out = {}
    node = None
    for p in paths:
        for e in data_publishes(p):
            a0 = e.value.args[0]
            if not isinstance(a0, ast.List) or not a0.elts:
                continue
            first = a0.elts[0]
            loops = [x for x in p.events if x.kind == 'for' and x.term.endswith('.items()')]
            if U(first) in ("b'//'", "'//'"):
                out.setdefault('control', set()).add((('lit', '//'),))
                continue
            if not loops:
                continue
            sym = f'__elem__({loops[-1].term})[0]'
            node = e.node
            for hidden in (True, False):
                te = TemplateEval(za.consts, {sym: 'T'}, hidden)
                out.setdefault('hidden' if hidden else 'normal', set()).add(te.one(first))
    return out, node, len(paths)


def norm_empty(t):
    """the template `t` with its symbol replaced by the empty string"""
    out = []
    for k, v in t:
        if k == 'lit':
            if out and out[-1][0] == 'lit':
                out[-1] = ('lit', out[-1][1] + v)
            else:
                out.append((k, v))
    return tuple(out)


@rule('C02.R5', 'wire encoding of topic names agrees between publisher (send_maybe), subscriber prefix (Sender.__init__) and decoder (recv_once), and the prefix match is narrowed to whole names: a topic the explicit subscription does not list is dropped by the receiver')
def r5(rr, repo):
    za = anchors(repo)
    pub, pnode, npaths = publisher_templates(za)
    rr.paths += npaths
    for case in ('hidden', 'normal', 'control'):
        if len(pub.get(case, ())) != 1:
            raise Unresolved(f'{Z}: publisher topic frame template for case {case}: {pub.get(case)}')
    P = {k: next(iter(v)) for k, v in pub.items()}
    rr.note('publisher: ' + ', '.join(f'{k}: {show(v)}' for k, v in P.items()))
    rr.ob("publisher frames a normal topic as delim + T + delim", P['normal'] == (('lit', '/'), ('sym', 'T'), ('lit', '/')), za.mod, pnode, witness=show(P['normal']), key='pub-normal')
    rr.ob("publisher frames a hidden ('_') topic as T + delim (no leading delimiter, so subscribe-all does not see it)", P['hidden'] == (('sym', 'T'), ('lit', '/')), za.mod, pnode, witness=show(P['hidden']), key='pub-hidden')
    # a name whose frame IS the control frame cannot be told from it by any receiver: with the framing above that is the empty name ('/' + '' + '/' == '//'); the publisher refuses it, before it
    # changes any state (the clients are marked as served just before the frames go out)
    collide = norm_empty(P['normal']) == P['control']
    if collide:
        refusals = [r for r in walk_scope(za.S_maybe) if isinstance(r, ast.Raise) and any(p_ and "'' in topicmsgs" in t_.replace('"', "'") for t_, p_ in q.effective_guards(r, za.S_maybe))]
        marks = [c for c in q.calls_in(za.S_maybe, into_functions=False) if U(c.func).endswith('Client')]
        pubs = [c for c in q.calls_in(za.S_maybe, into_functions=False) if isinstance(c.func, ast.Attribute) and c.func.attr == 'send_multipart' and 'hello' not in U(c).lower()]
        first_effect = min([c.lineno for c in marks + pubs] or [10 ** 9])
        rr.ob("the one topic name whose frame coincides with the control frame (the empty name) is refused by the publisher before anything is marked as sent or published", bool(refusals) and refusals[0].lineno < first_effect, za.mod,
              refusals[0] if refusals else pnode, witness=f"frame of '': {show(norm_empty(P['normal']))}; control frame: {show(P['control'])}; refusal: {U(refusals[0])[:60] if refusals else 'none'}", key='empty-topic-refused')
    # subscriber
    ps = za.paths('rs_init')
    rr.paths += len(ps)
    subs = {}   # kind -> set of templates
    nodes = {}
    for p in ps:
        for e in p.events:
            if e.kind == 'call' and e.term.endswith('.setsockopt_string') and e.args and e.args[0].endswith('SUBSCRIBE'):
                arg = e.value.args[1]
                pc = dict(p.pc[:e.pc_len])
                sym = [a for a in (U(x) for x in ast.walk(arg)) if a.startswith('__elem__(') and a.endswith('[0]')]
                if sym:
                    s = sorted(sym, key=len)[0]
                    for hidden in (True, False):
                        te = TemplateEval(za.consts, {s: 'T'}, hidden)
                        subs.setdefault(('explicit', hidden), set()).add(te.one(arg))
                        nodes[('explicit', hidden)] = e.node
                else:
                    te = TemplateEval(za.consts, {}, False)
                    for labels, t in te.alts(arg):
                        none = pc.get('isnone(topics)')
                        contradicted = False
                        for lt, lv in labels:
                            if lt.endswith(' is None'):
                                known = pc.get(f'isnone({lt[:-8]})')
                                if known is not None and known != lv:
                                    contradicted = True
                                elif lt[:-8] == 'topics':
                                    none = lv
                        if contradicted:
                            continue
                        kind = 'all' if none is True else 'star' if (none is False and any(k.startswith('eq(') and "'*'" in k and v is True for k, v in pc.items())) else 'explicit-control' if none is False else 'unknown'
                        subs.setdefault((kind, None), set()).add(t)
                        nodes[(kind, None)] = e.node
    rr.note('subscriber: ' + ', '.join(f'{k}: {[show(t) for t in v]}' for k, v in subs.items()))
    for need in (('explicit', True), ('explicit', False), ('all', None), ('star', None), ('explicit-control', None)):
        if len(subs.get(need, ())) != 1:
            rr.unresolved(f'subscriber prefix for {need}: expected exactly one template, got {[show(t) for t in subs.get(need, ())]}', za.mod, za.RS_init, key=f'sub-missing|{need}')
            return
    if ('unknown', None) in subs:
        rr.unresolved('a SUBSCRIBE whose subscription kind could not be classified', za.mod, nodes[('unknown', None)], key='sub-unknown')
    S = {k: next(iter(v)) for k, v in subs.items()}
    rr.ob('explicit subscription prefix of a hidden topic equals the published frame (trailing delimiter: `main` cannot match `main2`)',
          S[('explicit', True)] == P['hidden'], za.mod, nodes[('explicit', True)], witness=f"{show(S[('explicit', True)])} vs {show(P['hidden'])}", key='sub-explicit-hidden')
    rr.ob('explicit subscription prefix of a normal topic equals the published frame', S[('explicit', False)] == P['normal'], za.mod, nodes[('explicit', False)],
          witness=f"{show(S[('explicit', False)])} vs {show(P['normal'])}", key='sub-explicit-normal')
    a = S[('all', None)]
    te = TemplateEval(za.consts, {}, True)
    rr.ob('subscribe-all prefix matches every normal topic and the control frame', tstartswith(P['normal'], a) is True and tstartswith(P['control'], a) is True, za.mod, nodes[('all', None)], witness=show(a), key='sub-all-normal')
    hid = TemplateEval(za.consts, {}, True).startswith(P['hidden'], ''.join(v for _, v in a)) if all(k == 'lit' for k, _ in a) else None
    rr.ob('subscribe-all prefix never matches a hidden topic', hid is False, za.mod, nodes[('all', None)], witness=f'{show(a)} vs {show(P["hidden"])}', key='sub-all-hidden')
    rr.ob("'*' subscription is the empty prefix (everything)", S[('star', None)] == (), za.mod, nodes[('star', None)], witness=show(S[('star', None)]), key='sub-star')
    rr.ob('an explicit subscription also subscribes the control frame (topic lists, HELLO/CLOSE/OOB, heartbeats for empty sets)',
          tstartswith(P['control'], S[('explicit-control', None)]) is True and len(S[('explicit-control', None)]) > 0 and
          tstartswith(P['normal'], S[('explicit-control', None)]) is not True, za.mod, nodes[('explicit-control', None)], witness=show(S[('explicit-control', None)]), key='sub-control')
    # decoder
    topic_arg = None
    for c in q.attr_calls(za.R_pm, 'new_recv') + q.attr_calls(za.R_pm, 'init_recvd'):
        if len(c.args) >= 2 and isinstance(c.args[1], ast.Name):
            topic_arg = c.args[1].id
    if topic_arg is None:
        raise Unresolved(f'{Z}: cannot tell which local of recv_once holds the decoded topic')
    binds = [n for n in walk_scope(za.R_once) if isinstance(n, ast.Assign) and any(isinstance(t, ast.Name) and t.id == topic_arg for t in n.targets)]
    dec = [n for n in binds if any(isinstance(x, ast.Name) and x.id == 'msg' for x in ast.walk(n.value))]       # the decoder proper: derives the name from the message's first frame
    rr.floor('decoder assignments of the topic', len(dec), 1, za.mod, za.R_once)
    # A SUBSCRIBE filter is a byte PREFIX: the prefix of topic T ('/T/') also admits the frame of every topic that continues it ('/T/x/'). Whole names are selected
    # only if the receiver itself drops what the subscription does not list (the message then counts as the topic-less information message: topic = ''), or if the
    # publisher refuses topic names that contain the delimiter.
    def member_test(t):
        return any(isinstance(c, ast.Compare) and len(c.ops) == 1 and isinstance(c.ops[0], (ast.NotIn, ast.In)) and U(c.left) == topic_arg and U(c.comparators[0]) in ('sender.recvd_new', 'sender.topic_map') for c in ast.walk(t))
    blank = [n for n in binds if n not in dec]
    guards = []
    for n in blank:
        g = q.guards_of(n, stop=za.R_once)
        own = [t for t, pol in g if pol and member_test(t)]
        is_blank = isinstance(n.value, ast.Constant) and n.value.value == ''
        if not (is_blank and own):
            rr.unresolved(f'recv_once rebinds the decoded topic in a way this rule does not know: {U(n)[:80]}', za.mod, n, key='topic-rebound')
            continue
        t = own[0]
        conj = [U(v) for v in t.values] if isinstance(t, ast.BoolOp) and isinstance(t.op, ast.And) else [U(t)]
        exact = any(c == f'{topic_arg} not in sender.recvd_new' for c in conj) and all(c in (topic_arg, 'not sender.subscribed_all', f'{topic_arg} not in sender.recvd_new') for c in conj)
        first_use = min([c.lineno for c in ast.walk(za.R_once) if isinstance(c, ast.Call) and U(c.func).startswith('process_msg')] or [10 ** 9])
        rr.ob('an explicit subscription drops every topic it does not list before anything is stored: the message is demoted to the topic-less information message exactly when the subscription is explicit and the name is not in it',
              exact and n.lineno < first_use, za.mod, n, witness=U(t)[:160], key='whole-names-receiver')
        guards.append(n)
    if not guards:
        _, sm = za.mod, za.S_maybe
        refuses = [r for fn in (za.S_send, za.S_maybe) for r in walk_scope(fn) if isinstance(r, ast.Raise) and any(('TOPIC_DELIM' in U(t) or "'/'" in U(t)) and ' in ' in U(t) for t, pol in q.guards_of(r, stop=fn))]
        rr.ob("whole topic names are selected: the subscription prefix of `a` ('/a/') also admits the frame of a topic `a/b` ('/a/b/'), so either the receiver drops names its subscription does not list or the publisher refuses "
              "names that contain the delimiter", bool(refuses), za.mod, dec[0] if dec else za.R_once, witness='neither a membership test on the decoded topic in recv_once nor a delimiter check in ZMQSender.send', key='whole-names')
    for d in dec:
        for case, want in (('hidden', (('sym', 'T'),)), ('normal', (('sym', 'T'),)), ('control', ())):
            te = TemplateEval(za.consts, {}, case == 'hidden')
            te.env['msg[0]'] = P[case]
            try:
                got = te.one(d.value)
            except Unresolved as exc:
                rr.unresolved(f'decoder: {exc}', za.mod, d, key=f'dec|{case}')
                continue
            rr.ob(f'decoder maps the {case} frame back to {show(want)}', got == want, za.mod, d, witness=f'{show(P[case])} -> {show(got)}', key=f'dec|{case}')


@rule('C02.R6', "hidden '_' topics are excluded from subscribe-all sets and included only for '*'; nothing else widens a subscription")
def r6(rr, repo):
    za = anchors(repo)
    ps = za.paths('rs_init')
    rr.paths += len(ps)
    seen = {}
    for p in ps:
        for e in p.events:
            if e.kind == 'store' and e.term == 'self.init_recvd' and isinstance(e.value, ast.Lambda):
                body = e.value.body
                filt = isinstance(body, ast.DictComp) and any('startswith' in U(i) and "'_'" in U(i) and isinstance(i, ast.UnaryOp) for g in body.generators for i in g.ifs)
                pc = dict(p.pc[:e.pc_len])
                star = any(k.startswith('eq(') and "'*'" in k and v is True for k, v in pc.items()) and pc.get('isnone(topics)') is False
                seen[(filt, star)] = e
                if not filt:
                    rr.ob("the unfiltered (hidden-including) set builder is installed only for the '*' subscription", star, za.mod, e.node, witness=p.pc_text(e.pc_len), key='unfiltered')
                else:
                    rr.holds("default set builder drops topics starting with '_'", za.mod, e.node, key='filtered')
    rr.floor('filtered and unfiltered set builders', len({k[0] for k in seen}), 2, za.mod, za.RS_init)
    subs = [c for c in q.attr_calls(za.R_cls, 'setsockopt_string') + q.attr_calls(za.R_cls, 'setsockopt') if c.args and U(c.args[0]).endswith('SUBSCRIBE')]
    for c in subs:
        rr.ob('subscriptions are only made while constructing a source', enclosing_function(c) is za.RS_init, za.mod, c, key='subscribe-site')
    rr.floor('SUBSCRIBE sites', len(subs), 3, za.mod, za.RS_init)


@rule('C02.R7', 'state hand-over discipline: send() reports the next acceptable id (min_send_id read after the publish) on every non-timeout return; MQ clears send_state after a send and recv_state after a recv, '
                'so an id is never reused for a second send nor a stale expected id for a second recv')
def r7(rr, repo):
    za = anchors(repo)
    rets = [n for n in walk_scope(za.S_send) if isinstance(n, ast.Return)]
    k = 0
    for r in rets:
        v = r.value
        if v is None or (isinstance(v, ast.Constant) and v.value is None):
            g = q.guards_of(r, stop=za.S_send)
            rr.ob('send() returns None only on the timeout path', any('timeout' in U(t) for t, pol in g), za.mod, r, key='ret-none')
            continue
        k += 1
        ok = isinstance(v, ast.Call) and U(v.func).endswith('ZMQStateRecv') and len(v.args) == 1 and U(v.args[0]) == 'self.min_send_id'
        rr.ob('send() returns ZMQStateRecv(self.min_send_id)', ok, za.mod, r, witness=U(v), key='ret-state')
    rr.floor('state-returning exits of send()', k, 3, za.mod, za.S_send)
    from .zmq import MQF
    mqm, mq_send = repo.find(f'{MQF}::MQ.send')
    _, mq_recv = repo.find(f'{MQF}::MQ.recv')
    ev = Evaluator(repo, mqm)
    n = 0
    for p in ev.run(mq_send.body):
        sent = [e for e in p.events if e.kind == 'call' and e.term == 'self.sender.send']
        if not sent:
            continue
        res_none = [v for kk, v in p.pc if kk.startswith('isnone(self.sender.send(')]
        if res_none and res_none[0] is True:
            isret, isconst, val = ret_const(p)
            rr.ob('a timed-out send reports False and keeps the state for the retry', isret and isconst and val is False and not [e for e in p.events if e.kind == 'store' and e.term == 'self.send_state'], mqm, sent[0].node, witness=p.pc_text()[-200:], key='timeout-keeps-state')
            continue
        n += 1
        st = [e for e in p.events if e.kind == 'store' and e.term == 'self.send_state' and p.events.index(e) > p.events.index(sent[0])]
        rr.ob('after a send the id handed over by recv() is used up (self.send_state = None)', bool(st) and st[-1].args[0] == 'None', mqm, sent[0].node, witness=p.pc_text()[-200:], key='send-state-cleared')
        rs = [e for e in p.events if e.kind == 'store' and e.term == 'self.recv_state']
        def takes_state(e):
            v = e.value
            if isinstance(v, ast.IfExp):      # `state if frames is not None else None`: the state is taken exactly when there were frames (on this path there were: the None case returned earlier)
                t = v.test
                pos = isinstance(t, ast.Compare) and len(t.ops) == 1 and isinstance(t.ops[0], ast.IsNot) and U(t.comparators[0]) == 'None' and 'frames' in U(t.left)
                return pos and 'self.sender.send(' in U(v.body) and U(v.orelse) == 'None'
            return 'self.sender.send(' in e.args[0]
        rr.ob('after a send the state returned by the sender becomes the next expected id of recv()', bool(rs) and takes_state(rs[-1]), mqm, sent[0].node, witness=rs[-1].args[0][:120] if rs else '', key='recv-state-set')
        # callers retry on False (Filter.loop_once: `while not self.mq.send(...)`): once the sender answered - published, or dropped the frame because
        # its id was overtaken - the id is used up, so False here re-publishes the same frame under a NEW id (out of order, and the real owner of that id is discarded later)
        isret, isconst, val = ret_const(p)
        rr.ob('MQ.send() reports False (= retry) only when the sender timed out; once the sender answered it reports True, whether the frame went out or was dropped as overtaken', isret and isconst and val is True,
              mqm, sent[0].node, witness=p.outcome_text()[:80], key='false-only-on-timeout')
    rr.floor('successful-send paths of MQ.send', n, 1, mqm, mq_send)
    m = 0
    for p in Evaluator(repo, mqm).run(mq_recv.body):
        got = [e for e in p.events if e.kind == 'store' and e.term == 'self.send_state']
        if not got:
            continue
        m += 1
        rs = [e for e in p.events if e.kind == 'store' and e.term == 'self.recv_state']
        rr.ob('after a recv the expected id handed over by send() is used up (self.recv_state = None)', bool(rs) and rs[-1].args[0] == 'None', mqm, got[0].node, key='recv-state-cleared')
        use = [e for e in p.events if e.kind == 'call' and e.term == 'self.receiver.recv']
        ok = bool(use) and use[0].value.args and isinstance(use[0].value.args[0], ast.IfExp) and U(use[0].value.args[0].body) == 'self.recv_state' and U(use[0].value.args[0].test) == 'self.mq_msgid_sync'
        rr.ob('recv() hands self.recv_state to the receiver when mq_msgid_sync', ok, mqm, use[0].node if use else mq_recv, key='recv-state-used')
    rr.floor('receiving paths of MQ.recv', m, 1, mqm, mq_recv)


@rule('C02.R8', 'no frame is delivered under another id: the receiver-side invariants of C01 (other sources reset on a newer id - C01.R2; per-id sets are fresh objects - C01.R8; the adopted id survives a timed-out call - C01.R9)')
def r8(rr, repo):
    from .c01 import r2 as c01r2, r8 as c01r8, r9 as c01r9
    c01r2(rr, repo)
    c01r8(rr, repo)
    c01r9(rr, repo)


@rule('C02.R9', "frames travel unaltered through the transport: the publisher's split of a message into envelope field and frames is undone exactly by the receiver (shares C09.R6)")
def r9(rr, repo):
    from .c09 import r6 as c09r6
    c09r6(rr, repo)


@rule('C02.R10', "a subscription spec means what the documentation says: 'src>dst' maps src to dst, a bare 'src' maps it to itself, and an omitted side ('>dst', 'src>', '>') stands for the default topic 'main' on THAT side - "
                 'the pairs parse_topics builds are what the receiver renames by')
def r10(rr, repo):
    FIL = 'openfilter/filter_runtime/filter.py'
    mod, pt = repo.find(f'{FIL}::Filter.parse_topics')
    params = q.func_params(pt)
    dflt = 'default_topic' if 'default_topic' in params else None
    if dflt is None:
        raise Unresolved(f'{FIL}: parse_topics has no default_topic parameter')
    d = [a for a, dv in zip(pt.args.args[len(pt.args.args) - len(pt.args.defaults):], pt.args.defaults) if a.arg == dflt]
    rr.ob("the default topic is 'main'", bool(d) and q.const_str(pt.args.defaults[[a.arg for a in pt.args.args[len(pt.args.args) - len(pt.args.defaults):]].index(dflt)]) and
          pt.args.defaults[[a.arg for a in pt.args.args[len(pt.args.args) - len(pt.args.defaults):]].index(dflt)].value == 'main', mod, pt, key='default-main')
    # the pair-building expression: the comprehension (or helper) under `if mapping:` that is assigned to the topics list
    builds = [n for n in walk_scope(pt) if isinstance(n, ast.Assign) and isinstance(n.value, ast.ListComp) and any(pol and U(t) == 'mapping' for t, pol in q.guards_of(n, stop=pt))]
    if len(builds) != 1:      # not the one-expression form: decide by evaluating the statements that build the pairs (the table of C03.R20)
        from .c03 import r20 as c03r20
        c03r20(rr, repo)
        return
    comp = builds[0].value
    elt = comp.elt
    svar = U(comp.generators[0].target)
    verdict, why = None, U(elt)[:120]
    # idiom 1: tuple([t.strip() or default for t in s.strip().split('>')] * 2)[:2]
    if isinstance(elt, ast.Subscript) and isinstance(elt.slice, ast.Slice) and U(elt.slice.upper) == '2' and elt.slice.lower is None and isinstance(elt.value, ast.Call) and U(elt.value.func) == 'tuple' and elt.value.args and \
            isinstance(elt.value.args[0], ast.BinOp) and isinstance(elt.value.args[0].op, ast.Mult) and U(elt.value.args[0].right) == '2' and isinstance(elt.value.args[0].left, ast.ListComp):
        inner = elt.value.args[0].left
        piece = inner.elt
        it = U(inner.generators[0].iter)
        ok_iter = it in (f"{svar}.strip().split('>')", f"{svar}.split('>')")
        ok_piece = isinstance(piece, ast.BoolOp) and isinstance(piece.op, ast.Or) and len(piece.values) == 2 and U(piece.values[0]) == f'{U(inner.generators[0].target)}.strip()' and U(piece.values[1]) == dflt
        verdict = ok_iter and ok_piece
        why = f"pieces of split('>'), each `piece.strip() or {dflt}`, doubled and cut to two" if verdict else why
    # idiom 2: a helper / inline partition: src, _, dst = s.partition('>') ... (src.strip() or default, dst.strip() or <X>)
    elif isinstance(elt, ast.Call) and isinstance(elt.func, ast.Name):
        helper = [f for f in ast.walk(pt) if isinstance(f, ast.FunctionDef) and f.name == elt.func.id]
        if helper:
            rets = [r for r in ast.walk(helper[0]) if isinstance(r, ast.Return) and isinstance(r.value, ast.Tuple) and len(r.value.elts) == 2]
            parts = [n for n in ast.walk(helper[0]) if isinstance(n, ast.Assign) and isinstance(n.value, ast.Call) and isinstance(n.value.func, ast.Attribute) and n.value.func.attr == 'partition' and n.value.args and q.const_str(n.value.args[0]) and n.value.args[0].value == '>']
            if rets and parts and isinstance(parts[0].targets[0], ast.Tuple) and len(parts[0].targets[0].elts) == 3:
                src_n, _, dst_n = [U(e) for e in parts[0].targets[0].elts]
                dst_e = rets[0].value.elts[1]
                if isinstance(dst_e, ast.BoolOp) and isinstance(dst_e.op, ast.Or) and len(dst_e.values) == 2 and U(dst_e.values[0]) == f'{dst_n}.strip()':
                    fb = U(dst_e.values[1])
                    if fb == dflt:
                        # 'src' alone (no '>') must still map to itself: partition gives dst '' for it, so a distinction on the separator is needed
                        verdict, why = None, "partition form: an empty destination falls back to the default topic, but a bare 'src' (no '>') must map to itself - not decided by this idiom table"
                    else:
                        verdict, why = False, f"an omitted destination ('src>') falls back to {fb} instead of the default topic: the frame is delivered under another name than the subscription documents"
    if verdict is None:
        rr.unresolved('parse_topics builds the (source, destination) pairs in a way the idiom table does not know', mod, builds[0], witness=why, key='mapping-pairs')
    else:
        rr.ob("each 'src>dst' piece becomes (src or 'main', dst or 'main'), a piece without '>' becomes (src, src)", verdict, mod, builds[0], witness=why, key='mapping-pairs')
    # uniqueness test on both sides (a destination that two sources map to would merge frames)
    uniq = [n for n in walk_scope(pt) if isinstance(n, ast.If) and 'len(' in U(n.test) and 'set(' in U(n.test) and any(isinstance(b, ast.Raise) for b in ast.walk(n))]
    rr.ob('duplicate sources or destinations in one spec are refused', bool(uniq), mod, uniq[0] if uniq else pt, key='mapping-unique')


@rule('C02.R11', "the image bytes delivered are the image bytes published: whatever memory layout the published array has, the raw payload is the row-major flattening the consumer rebuilds the array from, and the "
                 "decoder undoes the encoder case by case (shares C09.R8)")
def r11(rr, repo):
    from .c09 import r8 as c09r8
    c09r8(rr, repo)


@rule('C02.R12', "what is published is what the buffers held when send() was called: every message handed to a ZeroMQ socket is copied by the call (pyzmq's default) - a zero-copy send (copy=False, or a tracker "
                 "nobody waits for) lets the I/O thread read the caller's bytearray / array later, after the caller has started to fill it with the next frame, which the docstring of send() explicitly allows")
def r12(rr, repo):
    za = anchors(repo)
    sends = [c for c in q.calls_in(za.mod.tree) if isinstance(c.func, ast.Attribute) and c.func.attr in ('send_multipart', 'send', 'send_string', 'send_json', 'send_pyobj') and
             U(c.func.value).split('.')[-1] in ('pub', 'push', 'sock', 'socket', 'pull', 'sub')]
    rr.floor('ZeroMQ socket sends in zeromq.py', len(sends), 5, za.mod, za.mod.tree)
    for c in sends:
        kw = q.kwarg(c, 'copy')
        pos = c.args[2] if c.func.attr == 'send_multipart' and len(c.args) >= 3 else None      # send_multipart(msg_parts, flags=0, copy=True, track=False)
        cp = kw if kw is not None else pos
        if cp is None:
            rr.ob('the socket send copies its payload', True, za.mod, c, witness=U(c)[:80], key=f'send-copies|{qualname(enclosing_function(c))}')
        elif isinstance(cp, ast.Constant):
            rr.ob('the socket send copies its payload', cp.value is not False and cp.value != 0, za.mod, c, witness=U(c)[:100], key=f'send-copies|{qualname(enclosing_function(c))}')
        else:
            rr.unresolved('the copy mode of a socket send is not a constant', za.mod, c, witness=U(c)[:100], key=f'send-copies|{qualname(enclosing_function(c))}')


@rule('C02.R13', "a set is made of what ONE publisher sent under its id: when a source says CLOSE, the half received set it leaves behind is dropped - for a synchronized source as well, whose consumer's requests "
                 "fast-forward the restarted publisher to exactly the id of that half set; if the new publisher's set lacks a topic the old one had delivered, the two would come out as one set")
def r13(rr, repo):
    from .c05 import close_drop_coverage
    za = anchors(repo)
    closes = [n for n in ast.walk(za.R_once) if isinstance(n, ast.If) and 'MSG_ID_CLOSE' in U(n.test)]
    rr.floor('CLOSE handlers in recv_once', len(closes), 1, za.mod, za.R_once)
    for h in closes:
        eph, sync, n = close_drop_coverage(h)
        rr.ob('when a synchronized source closes, a half received set of it is dropped', sync, za.mod, h, witness=f'new_recv() calls in the CLOSE handler: {n}; synchronized sources covered: {sync}', key='sync-close-drops-partial')


@rule('C02.R14', "what is delivered under an id is what was published last under it: a second message for a topic the set already holds (the same id reaches a consumer twice only across publisher runs) replaces "
                 "the stored frame, it is not dropped as a retransmission (shares C01.R11)")
def r14(rr, repo):
    from .c01 import r11 as c01r11
    c01r11(rr, repo)


@rule('C02.R15', "what is delivered for id k is the picture the frame held when id k was sent: with JPEG outputs the wire carries the frame's cached encoding when it has one, so a cached encoding may exist "
                 "only for pixels that can no longer change - a frame whose image is a writable view of a canvas keeps no JPEG, or every later id would arrive with the picture of the first "
                 "(shares C09.R9 = C10.R1 - R3)")
def r15(rr, repo):
    from .c09 import r9 as c09r9
    c09r9(rr, repo)
