"""placeholder"""
