"""C14 - reader position survives crashes: the head file changes only by an atomic rename of a closed temp file, restore validates."""

from __future__ import annotations

import ast
import re

from . import rule
from ..model import Unresolved, walk_scope, parent, enclosing_function, qualname
from ..paths import U, Path, Evaluator
from .. import q
from .c13 import fn_paths, RL, cls_of

WRITE_MODES = re.compile(r"[wax+]")


def open_events(p: Path):
    out = []
    for e in p.events:
        if e.kind == 'call' and e.term == 'open' and e.args:
            mode = e.args[1] if len(e.args) > 1 else dict(e.kwargs).get('mode', "'r'")
            out.append((e, e.args[0], mode.strip('\'"')))
    return out


@rule('C14.R1', 'who writes the head: the only open() with a writing mode on a path derived from self.head targets a different path (head + ".tmp"); the head itself is only opened for reading')
def r1(rr, repo):
    mod, cls = cls_of(repo)
    n = 0
    for f in [x for x in cls.body if isinstance(x, ast.FunctionDef)]:
        if not any(isinstance(c, ast.Call) and U(c.func) == 'open' for c in ast.walk(f)):
            continue
        _, fn, paths = fn_paths(repo, f.name, unroll_for=1) if f.name not in ('read', 'seek') else (mod, f, [])
        if f.name in ('read', 'seek'):
            # opens of log files for reading: check syntactically that the mode is 'rb'
            for c in q.name_calls(f, 'open'):
                m = U(c.args[1]) if len(c.args) > 1 else "'r'"
                rr.ob(f'{f.name}: log files are opened read-only', not WRITE_MODES.search(m.strip('\'"')), mod, c, key=f'ro-open|{f.name}')
            continue
        rr.paths += len(paths)
        for p in paths:
            for e, path, mode in open_events(p):
                if 'self.head' in path or path == 'head':
                    n += 1
                    writing = bool(WRITE_MODES.search(mode))
                    is_head_itself = path in ('self.head', 'head')
                    if is_head_itself:
                        rr.ob('the head file itself is never opened for writing', not writing, mod, e.node, witness=f'open({path}, {mode!r})', key=f'head-open|{f.name}|{writing}')
                    else:
                        ok = writing and re.fullmatch(r"self\.head \+ '[^']+'", path) is not None
                        rr.ob('writes go to a sibling temp path (head + suffix)', ok, mod, e.node, witness=f'open({path}, {mode!r})', key=f'tmp-open|{f.name}')
    rr.floor('open() calls on head-derived paths', n, 2, mod, cls)
    # nobody else touches the head path with a mutating os call
    for c in q.calls_in(cls):
        t = U(c.func)
        if t in ('os.remove', 'os.unlink', 'os.truncate', 'shutil.copy', 'shutil.move', 'os.replace', 'os.rename') and any('head' in U(a) for a in c.args):
            fn = enclosing_function(c)
            rr.ob('the head path is only touched by the rename in write_head', fn.name == 'write_head' and t in ('os.rename', 'os.replace'), mod, c, key=f'head-touch|{t}|{fn.name}')


@rule('C14.R2', 'ordering in write_head: the temp file is written and closed before os.rename(tmp, head); nothing else happens to head in between')
def r2(rr, repo):
    mod, fn, paths = fn_paths(repo, 'write_head')
    rr.paths += len(paths)
    n = 0
    for p in paths:
        if p.facts.get('isnone(self.head)') is not False:
            continue
        rn = [e for e in p.events if e.kind == 'call' and e.term in ('os.rename', 'os.replace')]
        if not rn:
            if p.outcome is None or p.outcome[0] == 'return':
                rr.violated('a save path that never renames the temp file over the head (position is lost or the head is written in place)', mod, fn, witness=p.pc_text(), key='no-rename')
            continue
        n += 1
        r = rn[0]
        opens = [e for e in p.events if e.kind == 'call' and e.term == 'open']
        exits = [e for e in p.events if e.kind == 'with_exit']
        writes = [e for e in p.events if e.kind == 'call' and e.term.endswith('.write')]
        ok_args = len(r.args) == 2 and r.args[1] == 'self.head' and opens and r.args[0] == opens[0].args[0]
        rr.ob('rename(src=the path that was written, dst=the head path)', bool(ok_args), mod, r.node, witness=str(r.args), key='rename-args')
        with_for_open = [e for e in p.events if e.kind == 'with' and 'open(' in e.term]
        closed_before = bool(with_for_open) and any(x.node is with_for_open[0].stmt for x in exits if p.events.index(x) < p.events.index(r))
        rr.ob('the temp file is closed (its with-block has ended) before the rename', closed_before, mod, r.node, witness=' -> '.join(repr(e)[:40] for e in p.events if e.kind in ('with', 'with_exit', 'call'))[:300], key='closed-before-rename')
        rr.ob('the position is written before the rename', bool(writes) and p.events.index(writes[0]) < p.events.index(r), mod, r.node, key='write-before-rename')
        between = [e for e in p.events[p.events.index(opens[0]) + 1:p.events.index(r)] if e.kind == 'call' and any('self.head' == a for a in e.args)]
        rr.ob('nothing else is done to the head path between opening the temp file and the rename', not between, mod, r.node, key='nothing-between')
    rr.floor('saving paths of write_head', n, 1, mod, fn)


@rule('C14.R3', 'restore never trusts a malformed file: __init__ reads only the head (never the temp), validates [str, int] and raises otherwise; a missing head means start')
def r3(rr, repo):
    mod, fn, paths = fn_paths(repo, '__init__')
    rr.paths += len(paths)
    n = m = 0
    for p in paths:
        allseeks = [e for e in p.events if e.kind == 'call' and e.term == 'self.seek']
        # the restore proper happens under `head is not None`; a seek before that test is the default position every log starts from (judged by C13.R10)
        seeks = [e for e in allseeks if any(pol and U(t).replace('self.', '') == 'head is not None' for t, pol in q.guards_of(e.node, stop=fn))]
        for e in allseeks:
            if e not in seeks:
                rr.ob("the default position taken before the head file is looked at is the end of the log", e.args[0].replace('"', "'") == "('end', 0)", mod, e.node, witness=e.args[0], key='default-end')
        for e, path, mode in open_events(p):
            rr.ob('__init__ opens only the head file, read-only', path in ('head', 'self.head', 'os.path.abspath(head)', 'os.path.realpath(head)') and not WRITE_MODES.search(mode), mod, e.node, witness=f'open({path}, {mode!r})', key='init-open')
        for s in seeks:
            arg = s.args[0]
            if 'json_loads' in arg or 'json.loads' in arg:
                n += 1
                f = p.facts
                checks = [f.get(f'truthy(isinstance({arg}, list))'), f.get(f'eq(2, len({arg}))') if f.get(f'eq(2, len({arg}))') is not None else f.get(f'eq(len({arg}), 2)'),
                          f.get(f'truthy(isinstance({arg}[0], str))'), f.get(f'truthy(isinstance({arg}[1], int))')]
                rr.ob('a position read from the head file is used only after it validated as [str, int]', all(c is True for c in checks), mod, s.node, witness=p.pc_text()[-300:], key='validated')
            else:
                m += 1
                rr.ob("without a head file the reader starts from ('start', 0)", arg.replace('"', "'") == "('start', 0)", mod, s.node, witness=arg, key='missing-start')
        bad = [k for k, v in p.facts.items() if k.startswith('truthy(isinstance(') and 'json_loads' in k and v is False]
        if bad:
            rr.ob('a malformed head file raises instead of being used', p.outcome is not None and p.outcome[0] == 'raise' and not seeks, mod, fn, witness=p.pc_text()[-200:], key='malformed-raises')
    rr.floor('restore paths that seek to a saved position', n, 1, mod, fn)
    rr.floor('restore paths without a head file', m, 1, mod, fn)


@rule('C14.R4', "the saved position is the reader's own: write_head() without argument takes self.tell() under the lock; close() saves before it closes the files")
def r4(rr, repo):
    mod, fn, paths = fn_paths(repo, 'write_head')
    n = 0
    param = q.func_params(fn)[1]
    for p in paths:
        if p.facts.get('isnone(self.head)') is not False or p.facts.get(f'isnone({param})') is not True:
            continue
        n += 1
        tell = [e for e in p.events if e.kind == 'call' and e.term == 'self.tell']
        lock = [e for e in p.events if e.kind == 'with' and e.term == 'self.lock']
        writes = [e for e in p.events if e.kind == 'call' and e.term.endswith('.write')]
        ok = bool(tell) and bool(lock) and p.events.index(lock[0]) < p.events.index(tell[0])
        rr.ob('the position saved by default is self.tell(), read under the lock', ok, mod, fn, witness=p.pc_text(), key='tell-under-lock')
        if writes and tell:
            rr.ob('what is written is that position', 'self.tell()' in writes[0].args[0], mod, writes[0].node, witness=writes[0].args[0][:100], key='writes-tell')
    rr.floor('default-position paths of write_head', n, 1, mod, fn)
    cmod, cfn, cpaths = fn_paths(repo, 'close')
    for p in cpaths:
        wh = [e for e in p.events if e.kind == 'call' and e.term == 'self.write_head']
        closes = [e for e in p.events if e.kind == 'call' and e.term.endswith('.close')]
        st = [e for e in p.events if e.kind == 'store' and e.term == 'self.read_file']
        ok = bool(wh) and all(p.events.index(wh[0]) < p.events.index(x) for x in closes + st)
        rr.ob('close() saves the position before closing / invalidating the reader', ok, cmod, cfn, witness=' '.join(e.term for e in p.events if e.kind == 'call')[:200], key='close-saves-first')


@rule('C14.R5', 'restore lands on or before the saved record: seek() opens the saved file and seeks to exactly the saved offset; if that file is gone it moves to the first NEWER file at offset 0 (or the end), never past an existing unread file')
def r5(rr, repo):
    mod, fn, paths = fn_paths(repo, 'seek', unroll_for=1)
    rr.paths += len(paths)
    rows = set()
    param = q.func_params(fn)[1]
    for p in paths:
        found = [v for kk, v in p.pc if kk.startswith('eq(os.path.basename(__elem__(')]
        newer = None
        for kk, v in p.pc:
            if kk.startswith('ord(') and '.timestamp' in kk and '__elem__' in kk:
                inner = kk[4:-1]
                newer = (v if inner.startswith('__elem__(') else {'<': '>', '>': '<', '=': '='}[v]) == '>'
        st = [e for e in p.events if e.kind == 'store' and e.term == 'self.read_idx']
        opens = [e for e in p.events if e.kind == 'call' and e.term == 'open']
        seeks = [e for e in p.events if e.kind == 'call' and e.term.endswith('.seek') and 'open(' in e.term]
        if p.outcome is not None and p.outcome[0] in ('raise', 'loopcut'):       # loopcut: a loop cut at the unrolling bound, not an exit of the method
            continue
        vanished = any(kk.startswith('raised-in-try@') for kk, v in p.pc)
        if found and found[0] is True and vanished:
            # the listed file disappeared between the scan and the open(): continue with the NEXT file at offset 0, nothing is opened here
            rows.add('vanished')
            ok = bool(st) and st[-1].args[0].replace(' ', '') in ('__elem__(enumerate(self.logfiles))[0]+1', '1+__elem__(enumerate(self.logfiles))[0]') and not seeks
            rr.ob('saved file listed but gone when opened: move on to the next file (index + 1), no stale offset is applied', ok, mod, st[-1].node if st else fn,
                  witness=st[-1].args[0] if st else 'no store', key='seek-vanished')
        elif found and found[0] is True:
            rows.add('found')
            end = [v for kk, v in p.pc if kk == f"eq('end', {param}[1])"]
            ok = bool(opens) and bool(st) and st[-1].args[0].endswith('[0]') and '__elem__' in st[-1].args[0] and opens[0].args[1].strip('\'"') == 'rb'
            rr.ob('the saved file is opened read-only and becomes the current file', ok, mod, opens[0].node if opens else fn, key='seek-open')
            if end and end[0] is False:
                rr.ob('the reader is positioned at exactly the saved offset', bool(seeks) and seeks[0].args == (f'{param}[1]',), mod, seeks[0].node if seeks else fn, witness=str(seeks[0].args) if seeks else 'no seek', key='seek-offset')
        elif newer is True:
            rows.add('newer')
            rr.ob('saved file gone: continue at the start of the first newer file', bool(st) and st[-1].args[0].endswith('[0]') and not opens, mod, st[-1].node if st else fn, key='seek-newer')
        elif st and st[-1].args[0] == 'len(self.logfiles)':
            rows.add('end')
        elif st and st[-1].args[0] in ('0',):
            rows.add('start')
    rr.floor('rows of the seek decision table', len(rows), 4, mod, fn)
    # the comparison that stops the scan is strict (a file with the SAME timestamp is the saved file, not a newer one)
    strict = [n for n in ast.walk(fn) if isinstance(n, ast.Compare) and 'timestamp' in U(n.left) and 'seek_timestamp' in U(n)]
    rr.ob('"newer" is a strict comparison of file timestamps', bool(strict) and all(isinstance(c.ops[0], ast.Gt) for c in strict), mod, strict[0] if strict else fn, key='seek-strict')


@rule('C14.R6', "what is saved is the next unread byte: tell() reports (current file, the open file's own offset) - 0 if the file is not open yet - and (last file, its size) / ('start', 0) at the end")
def r6(rr, repo):
    mod, fn, paths = fn_paths(repo, 'tell')
    rr.paths += len(paths)
    n = 0
    for p in paths:
        o = p.outcome
        if o is None or (o[0] == 'return' and o[1] is None):      # falls off the end / a bare return: tell() answers None, and that is what write_head() would save
            rr.ob('every path of tell() that does not raise answers with a position', False, mod, fn, witness=p.pc_text()[-200:] + ' => None', key='tell-always-answers')
            continue
        if o[0] != 'return':
            continue
        rel = None
        for kk, v in p.pc:
            if kk == 'ord(len(self.logfiles), self.read_idx)':
                rel = v
        t = U(o[1])
        if rel == '>':
            n += 1
            ok = t.startswith('(os.path.basename(self.logfiles[self.read_idx].path), 0 if self.read_file is None else self.read_file.tell()')
            rr.ob('inside the list: (name of logfiles[read_idx], read_file.tell() or 0 when not opened yet)', ok, mod, fn, witness=t[:140], key='tell-current')
        elif rel in ('<', '='):
            n += 1
            if p.facts.get('truthy(len(self.logfiles))') is True:
                rr.ob('at the end: (name of the last file, its recorded size)', t == '(os.path.basename(self.logfiles[-1].path), self.logfiles[-1].size)', mod, fn, witness=t[:140], key='tell-end')
            else:
                rr.ob("no files at all: ('start', 0)", t.replace('"', "'") == "('start', 0)", mod, fn, witness=t, key='tell-empty')
        elif rel is None and p.facts.get('truthy(len(self.logfiles))') is not False and 'self.logfiles[' in t:
            # a position is computed from the list without ever asking whether the reader is inside it or past its end: the two states need different
            # answers (offset of the file being read vs. size of the last file - "everything so far was read"), no single expression serves both
            n += 1
            has_try = any(isinstance(x, ast.Try) for x in ast.walk(fn))
            if has_try:
                rr.unresolved('tell() reports a position from the file list without comparing the reader index with its length (an exception handler may cover it)', mod, fn, witness=t[:140], key='tell-untested')
            else:
                rr.violated('tell() does not distinguish a reader past the end of the list from one inside it: past the end nothing is open, so the reported offset is 0 (or an index error) instead of the size of the last file, '
                            'and seek(tell()) / a restart from the saved head delivers the last file again', mod, fn, witness=t[:160], key='tell-untested')
    rr.floor('returning paths of tell()', n, 3, mod, fn)


@rule('C14.R7', 'a restarted reader finds the file its saved position names: the scan that rebuilds the file list accepts exactly the names the writer produces and recovers their timestamps (shares C13.R8)')
def r7(rr, repo):
    from .c13 import r8 as c13r8
    c13r8(rr, repo)


@rule('C14.R8', 'what is saved can be restored: write_head writes exactly one JSON document - the position pair, followed by a newline - and the restore parses the whole (stripped) content of the head file with the inverse, '
                'then checks it is the same two-element [str, int] shape tell() produces and seek() unpacks')
def r8(rr, repo):
    mod, wh = repo.find(f'{RL}::RollLog.write_head')
    _, init = repo.find(f'{RL}::RollLog.__init__')
    _, tell = repo.find(f'{RL}::RollLog.tell')
    _, seek = repo.find(f'{RL}::RollLog.seek')
    writes = [c for c in q.calls_in(wh) if isinstance(c.func, ast.Attribute) and c.func.attr == 'write']
    rr.floor('writes in write_head', len(writes), 1, mod, wh)
    pos = q.func_params(wh)[1] if len(q.func_params(wh)) > 1 else 'pos'
    for c in writes:
        a = c.args[0] if c.args else None
        ok = isinstance(a, ast.BinOp) and isinstance(a.op, ast.Add) and isinstance(a.right, ast.Constant) and a.right.value == '\n' and isinstance(a.left, ast.Call) and U(a.left.func) in ('json_dumps', 'json.dumps') \
            and len(a.left.args) == 1 and U(a.left.args[0]) == pos and not a.left.keywords
        rr.ob('the head file holds json_dumps(position) and a newline, nothing else', ok, mod, c, witness=U(a)[:80] if a is not None else '', key='head-written')
    rr.ob('exactly one write per save (the document cannot be torn across writes)', len(writes) == 1, mod, wh, key='head-one-write')
    loads = [c for c in q.calls_in(init) if U(c.func) in ('json_loads', 'json.loads')]
    rr.floor('parses of the head file', len(loads), 1, mod, init)
    for c in loads:
        t = U(c.args[0]) if c.args else ''
        rr.ob('the restore parses the whole content of the head file (read(), surrounding white space stripped) with the inverse of the writer', re.fullmatch(r'\w+\.read\(\)(\.strip\(\))?', t) is not None and len(c.args) == 1, mod, c, witness=t, key='head-parsed')
    # tell() yields pairs, seek() unpacks pairs
    rets = [r for r in ast.walk(tell) if isinstance(r, ast.Return) and r.value is not None]
    def pair(v):
        if isinstance(v, ast.IfExp):
            return pair(v.body) and pair(v.orelse)
        return isinstance(v, ast.Tuple) and len(v.elts) == 2
    rr.ob('every position tell() reports is a pair', bool(rets) and all(pair(r.value) for r in rets), mod, tell, witness='; '.join(U(r.value)[:50] for r in rets)[:200], key='tell-pairs')
    p_seek = q.func_params(seek)[1]
    unp = [n for n in walk_scope(seek) if isinstance(n, ast.Assign) and isinstance(n.targets[0], ast.Tuple) and len(n.targets[0].elts) == 2 and U(n.value) == p_seek]
    rr.ob('seek() takes a position apart as (file name, offset)', len(unp) == 1, mod, seek, key='seek-unpacks-pair')


@rule('C14.R9', "the file a saved position names keeps its content: a roll-over never re-uses the name of an existing log file (which would truncate the very file the saved (name, offset) points into), because the new "
                "timestamp is forced strictly above the newest listed one in whole microseconds (shares C13.R1)")
def r9(rr, repo):
    from .c13 import r1 as c13r1
    c13r1(rr, repo)


@rule('C14.R10', "no record that is on disk is skipped by the reader itself: a file is left for a newer one only after it was read once more AFTER the rescan that showed the newer file (the writer may have appended its "
                 "last record between the reader's empty read and that rescan), and a reader positioned at the end sits IN the newest file (shares C13.R4 and C13.R10)")
def r10(rr, repo):
    from .c13 import r4 as c13r4, r10 as c13r10
    c13r4(rr, repo)
    c13r10(rr, repo)


@rule('C14.R11', "a reader restarted from a head that names a file which was pruned meanwhile lands on the first newer file, not past the end of the list: seek() compares the timestamp in the saved name with the listed "
                 "ones in the same unit (shares C13.R14)")
def r11(rr, repo):
    from .c13 import r14 as c13r14
    c13r14(rr, repo)


@rule('C14.R12', "the position is saved to the file the next start reads it from: write_head() writes `self.head`; the constructor reads the restore position from the `head` it was given. The two are the "
                 "same file only if what the constructor keeps in self.head is that very name (or one form of it that both sides use: made absolute once, for both) - a name that is re-based for the "
                 "saves only is never found by the restart, which then begins at 'start' again and again; a relative name that is resolved anew on every save follows the process's working directory")
def r12(rr, repo):
    mod, init = repo.find(f'{RL}::RollLog.__init__')
    param = 'head'
    if param not in q.func_params(init):
        raise Unresolved(f'{RL}: RollLog.__init__ has no parameter `head`')
    st = [n for n in walk_scope(init) if isinstance(n, ast.Assign) and any(U(t) == 'self.head' for t in n.targets)]
    rr.floor('stores to self.head in the constructor', len(st), 1, mod, init)
    s = st[0]
    rebinds_local = any(U(t) == param for t in s.targets)          # self.head = head = <form>: the restore below uses the same form
    v = U(s.value)
    ABS = (f'os.path.abspath({param})', f'None if {param} is None else os.path.abspath({param})', f'os.path.abspath({param}) if {param} is not None else None',
           f'os.path.realpath({param})', f'None if {param} is None else os.path.realpath({param})')
    reads = [c for c in q.calls_in(init) if U(c.func) in ('open', 'os.path.exists', 'os.path.isfile') and c.args and U(c.args[0]) in (param, 'self.head') and c.lineno > s.lineno]
    rr.floor('reads of the head file in the constructor (exists / open)', len(reads), 2, mod, init)
    read_terms = {U(c.args[0]) for c in reads}
    if v == param:
        ok, why = True, 'kept as given'            # same text on both sides (and resolved against the same directory only while the process stays where it is: see the absolute form)
        rr.ob('self.head is the name the restart reads (kept as given)', True, mod, s, witness=U(s)[:100], key='head-saved-where-restored')
        rr.ob('the head file name is made absolute once, so that a save after a change of the working directory goes to the file the restart reads', False, mod, s, witness=U(s)[:100], key='head-absolute')
    elif v in ABS:
        same = read_terms <= {param, 'self.head'}      # inside the constructor the name as given and its absolute form are the same file
        rr.ob('self.head is the name the restart reads: the absolute form of the name the restore reads', same, mod, s, witness=f'{U(s)[:110]}; restore reads {sorted(read_terms)}', key='head-saved-where-restored')
        rr.ob('the head file name is made absolute once, so that a save after a change of the working directory goes to the file the restart reads', True, mod, s, witness=v[:80], key='head-absolute')
    else:
        same = read_terms <= {'self.head'} or (rebinds_local and read_terms <= {param, 'self.head'})
        if same:
            rr.unresolved('self.head is computed in a way this rule does not know; restore and saves use the same term, whether that names one file for the life of the reader was not decided', mod, s, witness=U(s)[:120], key='head-saved-where-restored')
        else:
            rr.ob('self.head is the name the restart reads', False, mod, s, witness=f'saves go to {v[:90]}; the restore reads {sorted(read_terms)}', key='head-saved-where-restored')
    _, wh = repo.find(f'{RL}::RollLog.write_head')
    opens = [c for c in q.calls_in(wh) if U(c.func) == 'open']
    src = [n for n in ast.walk(wh) if isinstance(n, ast.NamedExpr) and U(n.target) == 'head'] + [n for n in walk_scope(wh) if isinstance(n, ast.Assign) and U(n.targets[0]) == 'head']
    rr.ob('write_head() writes the file named by self.head', bool(opens) and bool(src) and all(U(n.value) == 'self.head' for n in src), mod, opens[0] if opens else wh, witness=', '.join(U(n)[:40] for n in src), key='head-write-target')


@rule('C14.R13', "the position that is saved is the position the reader is at: what read() has not handed out stays IN THE FILE (an unterminated tail is put back by seeking), it is not kept in memory "
                 "next to a file offset that already lies past it - tell() reports the raw offset, and a restart from it would deliver the tail of the record as a record and never the record "
                 "(shares C13.R15 and C13.R7)")
def r13(rr, repo):
    from .c13 import r15 as c13r15, r7 as c13r7
    c13r15(rr, repo)
    c13r7(rr, repo)
