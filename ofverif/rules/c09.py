"""C09 - wire codec: writer/reader schema agreement of MQ.frames2topicmsgs / MQ.topicmsgs2frames (no pixel values)."""

from __future__ import annotations

import ast
import re

from . import rule
from ..model import Unresolved, walk_scope, parent, enclosing_function, qualname
from ..paths import U, Path, Evaluator
from .. import q

MQF = 'openfilter/filter_runtime/mq.py'
FR = 'openfilter/filter_runtime/frame.py'


def writer_reader(repo):
    mod, w = repo.find(f'{MQF}::MQ.frames2topicmsgs')
    _, r = repo.find(f'{MQF}::MQ.topicmsgs2frames')
    q.expect_locals(mod, w, ['frame', 'data', 'msg', 'img', 'xtra', 'enc', 'do_jpg', 'outs_jpg'])
    q.expect_locals(mod, r, ['msg', 'xtra', 'data', 'dataidx'])
    return mod, w, r


def writer_envelope(w):
    """-> (frame loop var, {role: index}, enc name, list node)"""
    for n in ast.walk(w):
        if isinstance(n, ast.Dict):
            for k, v in zip(n.keys, n.values):
                if k is not None and q.const_str(k) == 'img' and isinstance(v, ast.List):
                    roles = {}
                    for i, e in enumerate(v.elts):
                        if isinstance(e, ast.Attribute) and e.attr in ('height', 'width', 'format'):
                            roles[e.attr] = i
                        elif isinstance(e, ast.Name):
                            roles['enc:' + e.id] = i
                    return roles, v
    raise Unresolved(f"{MQF}: frames2topicmsgs builds no {{'img': [...]}} envelope")


def reader_xtra_name(r):
    """the local that holds envelope['img'] in the reader"""
    for n in ast.walk(r):
        if isinstance(n, ast.Assign) and len(n.targets) == 1 and isinstance(n.targets[0], ast.Name):
            if any(isinstance(s, ast.Subscript) and q.const_str(s.slice) == 'img' for s in ast.walk(n.value)):
                return n.targets[0].id
    raise Unresolved(f"{MQF}: topicmsgs2frames never reads envelope['img']")


@rule('C09.R1', "envelope fields: the reader uses index 0 as height, 1 as width, 2 as format, 3 as encoding - exactly where the writer put them; the encodings written are the ones the reader distinguishes")
def r1(rr, repo):
    mod, w, r = writer_reader(repo)
    wroles, wlist = writer_envelope(w)
    enc = [k for k in wroles if k.startswith('enc:')]
    rr.ob('the writer envelope is [height, width, format, encoding]', {'height', 'width', 'format'} <= set(wroles) and len(enc) == 1 and len(wlist.elts) == 4, mod, wlist, witness=U(wlist), key='writer-shape')
    X = reader_xtra_name(r)
    idx = lambda node: node.slice.value if isinstance(node, ast.Subscript) and U(node.value) == X and isinstance(node.slice, ast.Constant) else None
    rroles = {}   # role -> set of indices the reader uses for it
    fmod, fb = repo.find(f'{FR}::Frame.from_blob')
    fparams = q.func_params(fb)
    cls = repo.find(f'{FR}::Frame')[1]
    alias = {st.targets[0].id: U(st.value) for st in cls.body if isinstance(st, ast.Assign) and isinstance(st.targets[0], ast.Name) and isinstance(st.value, ast.Name)}
    n_sites = 0
    for c in q.calls_in(r):
        f = U(c.func)
        if f.startswith('Frame.') and alias.get(f[6:], f[6:]) == 'from_blob':
            for i, a in enumerate(c.args):
                if idx(a) is not None and i < len(fparams):
                    rroles.setdefault(fparams[i], set()).add(idx(a))
                    n_sites += 1
            for k in c.keywords:
                if idx(k.value) is not None:
                    rroles.setdefault(k.arg, set()).add(idx(k.value))
        elif f == 'Frame' and len(c.args) >= 3 and idx(c.args[2]) is not None:
            rroles.setdefault('format', set()).add(idx(c.args[2]))
            n_sites += 1
        elif f.endswith('.reshape') and c.args:
            shp = c.args[0]
            for t in ([shp.body, shp.orelse] if isinstance(shp, ast.IfExp) else [shp]):
                if isinstance(t, ast.Tuple) and len(t.elts) >= 2:
                    if idx(t.elts[0]) is not None:
                        rroles.setdefault('height', set()).add(idx(t.elts[0]))
                    if idx(t.elts[1]) is not None:
                        rroles.setdefault('width', set()).add(idx(t.elts[1]))
                    n_sites += 1
                elif isinstance(t, ast.Subscript) and U(t.value) == X and isinstance(t.slice, ast.Slice):
                    lo = t.slice.lower.value if isinstance(t.slice.lower, ast.Constant) else 0
                    hi = t.slice.upper.value if isinstance(t.slice.upper, ast.Constant) else None
                    if hi is not None and hi - lo == 2:
                        rroles.setdefault('height', set()).add(lo)
                        rroles.setdefault('width', set()).add(lo + 1)
                        n_sites += 1
    enc_lits = set()
    for n in ast.walk(r):
        if isinstance(n, ast.Compare) and len(n.ops) == 1 and isinstance(n.ops[0], (ast.Eq, ast.NotEq)) and idx(n.left) is not None and q.const_str(n.comparators[0]) is not None:
            lit = n.comparators[0].value
            if lit in ('raw', 'jpg'):
                rroles.setdefault('enc', set()).add(idx(n.left))
                enc_lits.add(lit)
            else:
                rroles.setdefault('format', set()).add(idx(n.left))
    rr.floor('reader sites that use an envelope index', n_sites, 4, mod, r)
    for role in ('height', 'width', 'format'):
        rr.ob(f'reader index of {role} == writer index of {role}', rroles.get(role) == {wroles.get(role)}, mod, r, witness=f'reader {sorted(rroles.get(role, ()))} writer {wroles.get(role)}', key=f'index|{role}')
    rr.ob('reader index of the encoding == writer index', bool(enc) and rroles.get('enc') == {wroles[enc[0]]}, mod, r, witness=f'reader {sorted(rroles.get("enc", ()))}', key='index|enc')
    # encodings written
    wl = set()
    encname = enc[0][4:] if enc else None
    for n in ast.walk(w):
        if isinstance(n, ast.Assign) and any(isinstance(t, ast.Name) and t.id == encname for t in n.targets) and isinstance(n.value, ast.IfExp):
            wl = {q.const_str(n.value.body), q.const_str(n.value.orelse)}
    rr.ob("the writer names exactly the encodings 'jpg' and 'raw'; the reader tests one of them and treats the other as the alternative", wl == {'jpg', 'raw'} and len(enc_lits) == 1 and enc_lits <= wl, mod, w, witness=f'writer {sorted(x for x in wl if x)} reader tests {sorted(enc_lits)}', key='enc-literals')
    # the alternative branch of the reader decodes with from_jpg when it tested 'raw'
    for n in ast.walk(r):
        if isinstance(n, ast.IfExp) and isinstance(n.test, ast.Compare) and idx(n.test.left) is not None and q.const_str(n.test.comparators[0]) == 'raw':
            ok = 'np.frombuffer' in U(n.body) and 'from_jpg' in U(n.orelse) or 'from_blob' in U(n.orelse)
            rr.ob("'raw' is decoded from the buffer with the declared shape, otherwise through the jpg decoder", ok, mod, n, key='enc-branches')
    fmts = q.class_consts(cls).get('FORMATS')
    rr.ob("the reader's 2-D / 3-channel rule covers Frame.FORMATS ('GRAY' is the only 2-D format)", isinstance(fmts, tuple) and 'GRAY' in fmts and set(fmts) - {'GRAY'} == {'RGB', 'BGR'} and 'format' in rroles, fmod, cls, witness=str(fmts), key='formats')


@rule('C09.R2', 'message layout: the list shapes the writer emits are exactly the ones the reader accepts, with the data part and the image at the indices the reader decodes')
def r2(rr, repo):
    mod, w, r = writer_reader(repo)
    shapes = []
    for n in ast.walk(w):
        if isinstance(n, ast.Assign) and any(isinstance(t, ast.Name) and t.id == 'msg' for t in n.targets):
            vals = [n.value.body, n.value.orelse] if isinstance(n.value, ast.IfExp) else [n.value]
            for v in vals:
                if isinstance(v, ast.List):
                    shapes.append((v, n))
    rr.floor('list shapes emitted by the writer', len(shapes), 4, mod, w)
    # reader constants
    didx = None
    for n in ast.walk(r):
        if isinstance(n, ast.Assign) and isinstance(n.value, ast.IfExp) and isinstance(n.value.body, ast.Constant) and isinstance(n.value.orelse, ast.Constant) \
                and isinstance(n.value.body.value, int) and len(n.targets) == 1 and isinstance(n.targets[0], ast.Name):
            didx = (n.targets[0].id, n.value.body.value, n.value.orelse.value, U(n.value.test))
    if didx is None:
        raise Unresolved(f'{MQF}: topicmsgs2frames has no `dataidx = A if <has image> else B`')
    name, with_img, without_img, test = didx
    img_idx = {s.slice.value for c in q.calls_in(r) for s in ast.walk(c) if isinstance(s, ast.Subscript) and U(s.value) == 'msg' and isinstance(s.slice, ast.Constant) and isinstance(s.slice.value, int) and s.slice.value > 0}
    toolong = [n for n in ast.walk(r) if isinstance(n, ast.If) and any(isinstance(x, ast.Raise) for x in n.body) and name in U(n.test) and '+ 1' in U(n.test)]
    rr.ob('the reader rejects a message longer than data index + 1', bool(toolong), mod, r, key='too-long')
    dataread = [n for n in ast.walk(r) if isinstance(n, ast.IfExp) and f'msg[{name}]' in U(n.body) and name in U(n.test) and isinstance(n.orelse, ast.Constant) and n.orelse.value is None]
    rr.ob('the reader decodes msg[dataidx] iff the message is long enough, else data is None (-> {})', bool(dataread) and 'json_loads' in U(dataread[0].body), mod, r, key='data-read')
    for v, st in shapes:
        first = v.elts[0]
        has_img = not (isinstance(first, ast.Constant) and first.value is None)
        names = [U(e) for e in v.elts]
        want_didx = with_img if has_img else without_img
        pos_data = names.index('data') if 'data' in names else None
        ok = (pos_data is None and len(names) == want_didx) or (pos_data == want_didx and len(names) == want_didx + 1)
        rr.ob(f'writer shape {names}: data sits at the index the reader decodes ({want_didx}) and the length is one the reader accepts', ok, mod, v, witness=f'dataidx={want_didx}', key=f'shape|{len(names)}|{has_img}')
        if has_img:
            rr.ob('the image part is at index 1, where the reader takes it', len(names) >= 2 and names[1] == 'img' and img_idx == {1}, mod, v, witness=str(sorted(img_idx)), key=f'img-index|{len(names)}')
    # the data part is omitted exactly when it is empty
    dn = [n for n in ast.walk(w) if isinstance(n, ast.Assign) and any(isinstance(t, ast.Name) and t.id == 'data' for t in n.targets)]
    okd = bool(dn) and isinstance(dn[0].value, ast.IfExp) and U(dn[0].value.test) == 'frame.data' and isinstance(dn[0].value.orelse, ast.Constant) and dn[0].value.orelse.value is None and 'json_dumps(frame.data' in U(dn[0].value.body)
    rr.ob('the data part is json of frame.data, omitted (None) exactly when frame.data is empty', okd, mod, dn[0] if dn else w, key='data-omitted')
    # every str must survive: json text with ensure_ascii (the default) is pure ASCII, so .encode() cannot fail; with ensure_ascii=False a lone
    # surrogate (os.fsdecode of a non-UTF-8 file name, a truncated pair) makes .encode() raise and the whole frame set is lost
    for c in q.calls_in(w):
        if U(c.func).split('.')[-1] in ('json_dumps', 'dumps'):
            ea = q.kwarg(c, 'ensure_ascii')
            par = parent(c)
            enc = parent(par) if isinstance(par, ast.Attribute) and par.attr == 'encode' else None
            if ea is not None and not (isinstance(ea, ast.Constant) and ea.value is True):
                safe = isinstance(enc, ast.Call) and any(isinstance(a, ast.Constant) and a.value in ('surrogatepass', 'surrogateescape', 'backslashreplace') for a in list(enc.args) + [k.value for k in enc.keywords])
                rr.ob('json text that is not forced to ASCII is encoded with an error handler that cannot raise on lone surrogates', safe, mod, c, witness=U(enc if enc is not None else c)[:160], key='json-ascii')
            else:
                rr.holds('frame data is serialised as ASCII-only json before .encode()', mod, c, key='json-ascii')


@rule('C09.R3', 'encoding choice: jpg iff (frame.has_jpg when outputs_jpg is None, else outputs_jpg); the jpg branch sends frame.jpg, the raw branch the image buffer itself')
def r3(rr, repo):
    mod, w, r = writer_reader(repo)
    param = q.func_params(w)[1]
    dj = [n for n in ast.walk(w) if isinstance(n, ast.NamedExpr) and isinstance(n.value, ast.IfExp) and 'has_jpg' in U(n.value)]
    rr.floor('encoding decisions in the writer', len(dj), 1, mod, w)
    for n in dj:
        v = n.value
        ok = U(v.body) == 'frame.has_jpg' and U(v.test) == f'{param} is None' and U(v.orelse) == param
        rr.ob('do_jpg = frame.has_jpg if outs_jpg is None else outs_jpg', ok, mod, n, witness=U(v), key='do-jpg')
        name = n.target.id
        imgs = [a for a in ast.walk(w) if isinstance(a, ast.Assign) and any(isinstance(t, ast.Name) and t.id == 'img' for t in a.targets)]
        oki = bool(imgs) and isinstance(imgs[0].value, ast.IfExp) and U(imgs[0].value.test) == name and U(imgs[0].value.body) == 'frame.jpg' and 'frame.image' in U(imgs[0].value.orelse)
        rr.ob('img = frame.jpg if do_jpg else <buffer of frame.image>', oki, mod, imgs[0] if imgs else w, key='img-choice')
        if oki:
            raw = imgs[0].value.orelse
            # the reader rebuilds the array with np.frombuffer(...).reshape(declared shape): that is C (row-major)
            # order of the *logical* array, so the writer must serialise frame.image in logical C order
            c_order_idioms = ('bytearray(memoryview(frame.image))', 'bytes(memoryview(frame.image))', 'memoryview(frame.image)', 'frame.image.tobytes()',
                              "frame.image.tobytes('C')", "frame.image.tobytes(order='C')", 'np.ascontiguousarray(frame.image)', 'bytearray(frame.image)', 'bytes(frame.image)',
                              'bytearray(memoryview(np.ascontiguousarray(frame.image)))', 'memoryview(np.ascontiguousarray(frame.image))')
            txt = U(raw)
            memory_order = any(isinstance(k, ast.keyword) and k.arg == 'order' and not (isinstance(k.value, ast.Constant) and k.value.value == 'C') for c in ast.walk(raw) if isinstance(c, ast.Call) for k in c.keywords) \
                or any(isinstance(c, ast.Call) and isinstance(c.func, ast.Attribute) and c.func.attr in ('ravel', 'flatten', 'tobytes', 'reshape') and c.args and isinstance(c.args[-1], ast.Constant) and c.args[-1].value in ('K', 'F', 'A') for c in ast.walk(raw)) \
                or any(isinstance(a, ast.Attribute) and a.attr in ('T', 'data', 'base') for a in ast.walk(raw))
            if memory_order:
                rr.violated('the raw image is serialised in memory order / through a view that ignores the logical (row-major) order the reader reshapes with: permuted-axis images arrive scrambled', mod, imgs[0], witness=txt, key='raw-order')
            elif txt in c_order_idioms:
                rr.holds('the raw image is serialised in logical C order (buffer of the array itself)', mod, imgs[0], witness=txt, key='raw-order')
            else:
                rr.unresolved(f'raw serialisation idiom not in the table of known C-order forms: {txt}', mod, imgs[0], key='raw-order')
        encs = [a for a in ast.walk(w) if isinstance(a, ast.Assign) and isinstance(a.value, ast.IfExp) and q.const_str(a.value.body) == 'jpg']
        oke = bool(encs) and (U(encs[0].value.test) == name or (isinstance(encs[0].value.test, ast.NamedExpr) and encs[0].value.test.target.id == name)) and q.const_str(encs[0].value.orelse) == 'raw'
        rr.ob("the declared encoding is 'jpg' under the same decision and 'raw' otherwise", oke, mod, encs[0] if encs else w, key='enc-choice')
    noimg = [n for n in ast.walk(w) if isinstance(n, ast.If) and 'has_image' in U(n.test)]
    rr.ob('a frame without image sends no image part (has_image tested before any image access)', bool(noimg), mod, w, key='no-image')


@rule('C09.R4', 'decoding reproduces the declared shape: Frame.image (lazy) and Frame.from_blob compare the decoded shape with the declared one; the raw decode rebuilds the array with exactly the declared geometry')
def r4(rr, repo):
    fmod, img = repo.find(f'{FR}::Frame.image')
    _, fb = repo.find(f'{FR}::Frame.from_blob')
    a1 = [n for n in ast.walk(img) if isinstance(n, ast.Assert)]
    ok1 = any(isinstance(a.test, ast.Compare) and isinstance(a.test.ops[0], ast.Eq) and isinstance(a.test.left, ast.Attribute) and a.test.left.attr == 'shape'
              and '__shapef[0]' in U(a.test.comparators[0]) for a in a1)
    rr.ob('Frame.image asserts decoded shape == declared shape', ok1, fmod, img, key='assert-image')
    a2 = [n for n in ast.walk(fb) if isinstance(n, ast.Assert)]
    fp = q.func_params(fb)
    ok2 = any(isinstance(a.test, ast.Compare) and isinstance(a.test.ops[0], ast.Eq) and U(a.test.left).endswith('.shape[:2]') and len(fp) >= 4
              and U(a.test.comparators[0]) == f'({fp[2]}, {fp[3]})' for a in a2)
    rr.ob('Frame.from_blob asserts decoded (rows, cols) == (height, width) when dimensions were declared', ok2, fmod, fb, key='assert-from-blob')
    # declared shape of a jpg-only frame is (height, width[, 3]) in that order
    st = [n for n in ast.walk(fb) if isinstance(n, ast.Assign) and any('__shapef' in U(t) for t in n.targets) and 'height' in U(n.value)]
    ok3 = bool(st) and len(fp) >= 5 and f"({fp[2]}, {fp[3]}) if {fp[4]} == 'GRAY' else ({fp[2]}, {fp[3]}, 3)" in U(st[0].value)
    rr.ob('a jpg-only frame declares its shape as (height, width) / (height, width, 3)', ok3, fmod, st[0] if st else fb, key='declared-shape')
    # raw decode: the array is rebuilt with exactly the declared geometry - (h, w) for GRAY, (h, w, 3) otherwise - and nothing
    # reshapes it afterwards (an inferred axis or a squeeze changes 1 x N / N x 1 / 1 x 1 images)
    mmod, t2f = repo.find(f'{MQF}::MQ.topicmsgs2frames')
    cons = [c for c in q.name_calls(t2f, 'Frame') if c.args and any(isinstance(x, ast.Call) and U(x.func).endswith('.frombuffer') for x in ast.walk(c.args[0]))]
    rr.floor('raw-image Frame constructions in topicmsgs2frames', len(cons), 1, mmod, t2f)
    for c in cons:
        x = c.args[0]
        SHAPERS = ('squeeze', 'transpose', 'ravel', 'flatten', 'swapaxes', 'T', 'resize', 'view', 'astype')
        def sub(n, base, i):
            return isinstance(n, ast.Subscript) and U(n.value) == base and isinstance(n.slice, ast.Constant) and n.slice.value == i
        verdict, why = None, ''
        if isinstance(x, ast.Call) and isinstance(x.func, ast.Attribute) and x.func.attr == 'reshape' and isinstance(x.func.value, ast.Call) and U(x.func.value.func).endswith('.frombuffer'):
            fb_ = x.func.value
            dt = U(fb_.args[1]) if len(fb_.args) > 1 else (U(q.kwarg(fb_, 'dtype')) if q.kwarg(fb_, 'dtype') is not None else '')
            shp = x.args[0] if len(x.args) == 1 else ast.Tuple(elts=list(x.args), ctx=ast.Load())
            if isinstance(shp, ast.IfExp) and isinstance(shp.test, ast.Compare) and len(shp.test.ops) == 1 and isinstance(shp.test.ops[0], (ast.Eq, ast.NotEq)):
                gray, colour = (shp.body, shp.orelse) if isinstance(shp.test.ops[0], ast.Eq) else (shp.orelse, shp.body)
                sides = [shp.test.left, shp.test.comparators[0]]
                fmt = [n for n in sides if isinstance(n, ast.Subscript)]
                lit = [n for n in sides if isinstance(n, ast.Constant)]
                base = U(fmt[0].value) if fmt else ''
                okf = bool(fmt) and bool(lit) and lit[0].value == 'GRAY' and sub(fmt[0], base, 2)
                okg = (isinstance(gray, ast.Tuple) and len(gray.elts) == 2 and sub(gray.elts[0], base, 0) and sub(gray.elts[1], base, 1)) or U(gray) == f'{base}[:2]'
                okc = isinstance(colour, ast.Tuple) and len(colour.elts) == 3 and sub(colour.elts[0], base, 0) and sub(colour.elts[1], base, 1) and isinstance(colour.elts[2], ast.Constant) and colour.elts[2].value == 3
                verdict = okf and okg and okc and dt.endswith('uint8')
                why = f'dtype={dt} shape={U(shp)}'
            elif any(isinstance(n, ast.Constant) and n.value == -1 for n in ast.walk(shp)) or any(isinstance(n, ast.UnaryOp) and isinstance(n.op, ast.USub) for n in ast.walk(shp)):
                verdict, why = False, f'an axis is inferred: {U(shp)}'
        elif (isinstance(x, ast.Call) and isinstance(x.func, ast.Attribute) and x.func.attr in SHAPERS) or (isinstance(x, ast.Attribute) and x.attr in SHAPERS):
            verdict, why = False, f'the rebuilt array is reshaped again by .{(x.func if isinstance(x, ast.Call) else x).attr}'
        if verdict is None:
            rr.unresolved('raw decode: unrecognised way of rebuilding the array from the buffer', mmod, c, witness=U(x)[:160], key='raw-geometry')
        else:
            rr.ob('raw decode rebuilds the array as uint8 with exactly the declared geometry: (height, width) for GRAY, (height, width, 3) otherwise, no inferred axis, no later reshaping',
                  verdict, mmod, c, witness=why[:200], key='raw-geometry')


@rule('C09.R5', 'a JPEG decodes to the channel count the frame declares: Frame.decode forces 1 channel for GRAY and 3 channels for every other format (IMREAD_GRAYSCALE / IMREAD_COLOR), never a flag '
                'that lets the file decide (ANYCOLOR / UNCHANGED), raises on an undecodable blob, and every decode of a frame goes through it')
def r5(rr, repo):
    fmod, dec = repo.find(f'{FR}::Frame.decode')
    calls = [c for c in q.calls_in(dec) if U(c.func) == 'cv2.imdecode']
    rr.floor('cv2.imdecode calls in Frame.decode', len(calls), 1, fmod, dec)
    fparam = q.func_params(dec)[1] if len(q.func_params(dec)) > 1 else 'format'
    FORCED = {'cv2.IMREAD_COLOR': 3, '1': 3, 'cv2.IMREAD_GRAYSCALE': 1, '0': 1}
    FILE_DECIDES = ('ANYCOLOR', 'UNCHANGED', 'ANYDEPTH', '-1', 'REDUCED', 'IGNORE_ORIENTATION')
    for c in calls:
        flag = c.args[1] if len(c.args) > 1 else q.kwarg(c, 'flags')
        if flag is None:
            rr.violated('Frame.decode: imdecode is called without a flag (the default decodes to 3 channels also for GRAY frames)', fmod, c, key='decode-flag')
            continue
        if isinstance(flag, ast.Name):      # the flag was put into a local first: read it off its (one) definition
            defs = [n for n in walk_scope(dec) if isinstance(n, ast.Assign) and len(n.targets) == 1 and U(n.targets[0]) == flag.id]
            if len(defs) == 1:
                flag = defs[0].value
        # leaves of the conditional with the condition under which they are chosen
        def leaves(n, conds):
            if isinstance(n, ast.IfExp):
                yield from leaves(n.body, conds + [(n.test, True)])
                yield from leaves(n.orelse, conds + [(n.test, False)])
            else:
                yield n, conds
        verdict, why = True, []
        seen = set()
        for leaf, conds in leaves(flag, []):
            t = U(leaf)
            if any(x in t for x in FILE_DECIDES):
                verdict, why = False, why + [f'{t}: the file, not the declared format, decides the channel count']
                continue
            if t not in FORCED:
                verdict = None if verdict is not False else verdict
                why.append(f'unrecognised flag {t}')
                continue
            # which format does this leaf serve?
            gray = None
            for test, pol in conds:
                if isinstance(test, ast.Compare) and len(test.ops) == 1 and isinstance(test.ops[0], (ast.Eq, ast.NotEq)) and {U(test.left), U(test.comparators[0])} == {fparam, "'GRAY'"}:
                    gray = (isinstance(test.ops[0], ast.Eq)) == pol
            if gray is None:
                verdict = None if verdict is not False else verdict
                why.append(f'{t} is not selected by a test of the declared format against GRAY')
                continue
            seen.add(gray)
            if FORCED[t] != (1 if gray else 3):
                verdict = False
                why.append(f'{"GRAY" if gray else "colour"} frames are decoded with {t} ({FORCED[t]} channel(s))')
        if verdict is True and seen != {True, False}:
            verdict, why = None, why + ['one flag for both GRAY and colour frames']
        if verdict is None:
            rr.unresolved('Frame.decode: cannot read the imdecode flag as a GRAY / colour table', fmod, c, witness='; '.join(why)[:200], key='decode-flag')
        else:
            rr.ob('Frame.decode forces the channel count from the declared format: IMREAD_GRAYSCALE for GRAY, IMREAD_COLOR otherwise', verdict, fmod, c, witness='; '.join(why)[:200] or U(flag), key='decode-flag')
    rs = [n for n in ast.walk(dec) if isinstance(n, ast.Raise)]
    nonecheck = any(isinstance(n, ast.Compare) and isinstance(n.ops[0], ast.Is) and isinstance(n.comparators[0], ast.Constant) and n.comparators[0].value is None for n in ast.walk(dec))
    rr.ob('an undecodable blob raises instead of producing a frame without pixels', bool(rs) and nonecheck, fmod, dec, key='decode-raises')
    # every other imdecode in the frame module would bypass the table
    cmod, cls = repo.find(f'{FR}::Frame')
    other = [c for c in q.calls_in(cls, into_functions=True) if U(c.func) == 'cv2.imdecode' and enclosing_function(c) is not dec]
    rr.ob('no other place in Frame decodes an image', not other, fmod, other[0] if other else cls, key='decode-single-site')


@rule('C09.R6', "the transport puts a topic's message back together as it was handed in: the publisher moves element 0 into the envelope ('xtra') and sends the remaining elements as the frames after the "
                "envelope; the receiver rebuilds [envelope['xtra'], *frames after the envelope] - same key, same split point, compact ASCII JSON for the envelope on both sides")
def r6(rr, repo):
    from .zmq import anchors
    za = anchors(repo)
    # publisher side: the data publish inside the loop over topicmsgs.items()
    pubs = []
    for loop in [n for n in walk_scope(za.S_maybe) if isinstance(n, ast.For) and U(n.iter).endswith('.items()') and isinstance(n.target, ast.Tuple) and len(n.target.elts) == 2]:
        tname, mname = [U(e) for e in loop.target.elts]
        sends = [c for c in ast.walk(loop) if isinstance(c, ast.Call) and isinstance(c.func, ast.Attribute) and c.func.attr == 'send_multipart']
        if not sends:
            continue
        # what is sent: a name bound in the loop to a list display
        binds = [n for n in ast.walk(loop) if isinstance(n, ast.Assign) and len(n.targets) == 1 and isinstance(n.targets[0], ast.Name) and isinstance(n.value, ast.List)]
        xtra = [n for n in ast.walk(loop) if isinstance(n, ast.Assign) and len(n.targets) == 1 and isinstance(n.targets[0], ast.Subscript) and q.const_str(n.targets[0].slice)]
        pubs.append((loop, tname, mname, sends, binds, xtra))
    if len(pubs) != 1:
        raise Unresolved(f'{za.mod.relpath}: send_maybe: expected one publishing loop over the topic messages, found {len(pubs)}')
    loop, tname, mname, sends, binds, xtra = pubs[0]
    key = None
    for n in xtra:
        if U(n.value) == f'{mname}[0]':
            key = n.targets[0].slice.value
            env = U(n.targets[0].value)
            rr.holds(f'publisher: element 0 of the message travels in the envelope under {key!r}', za.mod, n, key='pub-xtra')
    if key is None:
        rr.violated("publisher: element 0 of a topic's message (the image header / small metadata) is not put into the envelope: it never reaches the consumer", za.mod, loop, key='pub-xtra')
        return
    wire = None
    for b in binds:
        if U(sends[0].args[0]) == b.targets[0].id or (isinstance(sends[0].args[0], ast.Name) and sends[0].args[0].id == b.targets[0].id):
            wire = b
    if wire is None:
        rr.unresolved('publisher: cannot identify the list that is sent', za.mod, sends[0], key='pub-wire')
        return
    el = wire.value.elts
    ok = len(el) == 3 and isinstance(el[2], ast.Starred) and U(el[2].value) == f'{mname}[1:]' and 'json_dumps(' in U(el[1]) and env in U(el[1]) and U(el[1]).endswith('.encode()')
    rr.ob(f'publisher: the wire message is [topic, json(envelope), *{mname}[1:]] - every element after the first travels as its own frame, in order', ok, za.mod, wire, witness=U(wire.value)[:140], key='pub-wire')
    jd = [c for c in ast.walk(wire.value) if isinstance(c, ast.Call) and U(c.func) in ('json_dumps', 'json.dumps')]
    rr.ob('publisher: the envelope is ASCII JSON (ensure_ascii left on) so .encode() cannot fail on what the consumer must decode', bool(jd) and all(q.kwarg(c, 'ensure_ascii') is None or U(q.kwarg(c, 'ensure_ascii')) == 'True' for c in jd), za.mod, wire, key='pub-json')
    order = sorted([n for n in xtra if U(n.value) == f'{mname}[0]'] + [wire], key=lambda n: n.lineno)
    rr.ob('publisher: the envelope is serialised after element 0 was put into it', order[-1] is wire, za.mod, wire, key='pub-order')
    # receiver side
    rebuild = [n for n in walk_scope(za.R_once) if isinstance(n, ast.Assign) and len(n.targets) == 1 and isinstance(n.value, ast.List) and len(n.value.elts) == 2 and isinstance(n.value.elts[1], ast.Starred)
               and isinstance(n.value.elts[1].value, ast.Subscript) and isinstance(n.value.elts[1].value.slice, ast.Slice)]
    rr.floor('receiver: message rebuilds in recv_once', len(rebuild), 1, za.mod, za.R_once)
    for n in rebuild:
        first, rest = n.value.elts[0], n.value.elts[1].value
        got = None
        if isinstance(first, ast.Call) and isinstance(first.func, ast.Attribute) and first.func.attr == 'get' and first.args and q.const_str(first.args[0]):
            got = first.args[0].value
        elif isinstance(first, ast.Subscript) and q.const_str(first.slice):
            got = first.slice.value
        lo = rest.slice.lower
        ok = got == key and isinstance(lo, ast.Constant) and lo.value == 2 and rest.slice.upper is None and rest.slice.step is None
        rr.ob(f'receiver: the message handed on is [envelope[{key!r}], *frames from index 2] (frame 0 is the topic, frame 1 the envelope)', ok, za.mod, n, witness=U(n.value)[:120], key='recv-rebuild')
        src = U(rest.value)
        envsrc = [x for x in walk_scope(za.R_once) if isinstance(x, ast.Assign) and any(isinstance(c, ast.Call) and U(c.func) in ('json_loads', 'json.loads') for c in ast.walk(x.value))]
        okenv = any(f'{src}[1]' in U(x.value) for x in envsrc)
        rr.ob('receiver: the envelope is decoded from frame 1 of the same wire message', okenv, za.mod, n, witness='; '.join(U(x)[:60] for x in envsrc)[:160], key='recv-envelope')


@rule('C09.R7', "the image header on the wire says what the frame is: the writer takes height, width, format and 'already encoded?' from accessors that read rows / columns / label / jpg cache of the frame's "
                'declared state (shares C10.R9)')
def r7(rr, repo):
    from .c10 import r9 as c10r9
    c10r9(rr, repo)


@rule('C09.R8', 'decoding undoes encoding, case by case: the decoder is partially evaluated on the message the encoder builds for every kind of frame (no image / raw image / jpg image, each with and without data) and must '
                'yield the constructor call that rebuilds that frame - same image bytes, the header fields in their places, the data through the inverse of its serialisation, nothing else')
def r8(rr, repo):
    from ..peval import PEval, Obj, Sym, Lit, Lst, Dct, Undecided, Raised
    mod, enc = repo.find(f'{MQF}::MQ.frames2topicmsgs')
    _, dec = repo.find(f'{MQF}::MQ.topicmsgs2frames')

    def loop_of(fn):
        ls = [n for n in fn.body if isinstance(n, ast.For) and U(n.iter).endswith('.items()') and isinstance(n.target, ast.Tuple) and len(n.target.elts) == 2]
        if len(ls) != 1:
            raise Unresolved(f'{MQF}: {fn.name}: expected one loop over the topic dictionary')
        return ls[0]
    eloop, dloop = loop_of(enc), loop_of(dec)
    e_topic, e_frame = [U(x) for x in eloop.target.elts]
    d_topic, d_msg = [U(x) for x in dloop.target.elts]
    e_params = q.func_params(enc)
    outs_param = e_params[1] if len(e_params) > 1 else 'outs_jpg'
    e_out = U(eloop.body[-1].targets[0].value) if isinstance(eloop.body[-1], ast.Assign) and isinstance(eloop.body[-1].targets[0], ast.Subscript) else None
    d_out = U(dloop.body[-1].targets[0].value) if isinstance(dloop.body[-1], ast.Assign) and isinstance(dloop.body[-1].targets[0], ast.Subscript) else None
    if e_out is None or d_out is None:
        raise Unresolved(f'{MQF}: the codec loops do not end by storing their result under the topic')
    n = 0
    for has_image in (False, True):
        for has_data in (False, True):
            for mode in ((None,) if not has_image else ('jpg-cached', 'jpg-forced', 'raw-forced', 'raw-default')):
                label = f'{"image" if has_image else "no image"}{"/" + mode if mode else ""}, {"data" if has_data else "no data"}'
                frame = Obj({'has_image': Lit(has_image), 'data': Sym('frame.data', truth=has_data),
                             'has_jpg': Lit(mode == 'jpg-cached') if has_image else Lit(None),
                             'height': Sym('frame.height'), 'width': Sym('frame.width'), 'format': Sym('frame.format'), 'jpg': Sym('frame.jpg', True), 'image': Sym('frame.image', True)}, 'frame')
                outs = Lit(None) if mode in ('jpg-cached', 'raw-default') else Lit(mode == 'jpg-forced')
                pe = PEval({e_frame: frame, e_topic: Sym('topic'), outs_param: outs, e_out: Dct({})})
                try:
                    pe.run(eloop.body)
                except (Undecided, Raised) as exc:
                    rr.unresolved(f'encoder, {label}: cannot be followed ({exc})', mod, eloop, key=f'roundtrip|enc|{label}')
                    continue
                msg = pe.env[e_out].d.get("topic") if isinstance(pe.env.get(e_out), Dct) else None
                if msg is None:
                    rr.violated(f'encoder, {label}: no message is stored for the topic', mod, eloop, key=f'roundtrip|enc|{label}')
                    continue
                pd = PEval({d_msg: msg, d_topic: Sym('topic'), d_out: Dct({})})
                try:
                    pd.run(dloop.body)
                except Raised as exc:
                    rr.violated(f'{label}: the decoder rejects the message the encoder builds for this frame', mod, exc.node, witness=repr(msg)[:200], key=f'roundtrip|{label}')
                    continue
                except Undecided as exc:
                    rr.unresolved(f'{label}: decoder cannot be followed on the encoder\'s message ({exc})', mod, dloop, witness=repr(msg)[:160], key=f'roundtrip|{label}')
                    continue
                got = pd.env[d_out].d.get('topic')
                n += 1
                g = repr(got).replace(' ', '')
                D = "json_loads(json_dumps(frame.data,separators=(',',':')).encode().decode())" if has_data else 'None'
                if not has_image:
                    want = [f'Frame({D})']
                elif mode.startswith('jpg'):
                    want = [f'Frame.from_jpg(frame.jpg,{D},frame.height,frame.width,frame.format)']
                else:
                    buf = 'np.frombuffer(bytearray(memoryview(frame.image)),np.uint8)'
                    want = [f"Frame({buf}.reshape({two}ifframe.format=='GRAY'else(frame.height,frame.width,3)),{D},frame.format)" for two in ('(frame.height,frame.width)', '[frame.height,frame.width]')]
                rr.ob(f'{label}: decode(encode(frame)) rebuilds the frame from the same bytes, header fields and data', g in want, mod, dloop, witness=f'{repr(got)[:220]}', key=f'roundtrip|{label}')
    rr.floor('frame kinds taken through encoder and decoder', n, 10, mod, enc)
    for fn, out, loop in ((enc, e_out, eloop), (dec, d_out, dloop)):
        inits = [s_ for s_ in fn.body if isinstance(s_, ast.Assign) and U(s_.targets[0]) == out and isinstance(s_.value, ast.Dict) and not s_.value.keys and s_.lineno < loop.lineno]
        rets = [s_ for s_ in fn.body if isinstance(s_, ast.Return)]
        rr.ob(f'{fn.name} starts from an empty result and returns the dictionary the loop filled (one entry per topic, nothing carried over)', len(inits) == 1 and len(rets) == 1 and rets[0].value is not None and U(rets[0].value) == out and rets[0].lineno > loop.lineno,
              mod, fn, key=f'codec-result|{fn.name}')


@rule('C09.R9', "the JPEG that goes on the wire is the encoding of the pixels of the frame that is sent: a cached encoding exists only for pixels that can no longer change, and the 'read-only copy' a cache is built "
                'on really is a copy (shares C10.R1, C10.R2, C10.R3)')
def r9(rr, repo):
    from .c10 import r1 as c10r1, r2 as c10r2, r3 as c10r3
    c10r1(rr, repo)
    c10r2(rr, repo)
    c10r3(rr, repo)


@rule('C09.R10', "every topic of a frame set is encoded and decoded on its own: inside the per-topic loops of MQ.frames2topicmsgs and MQ.topicmsgs2frames nothing a topic's iteration binds is read by a later "
                 "iteration before that iteration has bound it itself (no setting, choice or buffer carried from one topic to the next); the per-call setting is never rebound in the loop")
def r10(rr, repo):
    mod = repo.module(MQF)
    for name in ('MQ.frames2topicmsgs', 'MQ.topicmsgs2frames'):
        _, fn = repo.find(f'{MQF}::{name}')
        loops = [n for n in walk_scope(fn) if isinstance(n, ast.For) and U(n.iter).endswith('.items()') and U(n.iter).split('.')[0] in q.func_params(fn)]
        rr.floor(f'per-topic loops of {name}', len(loops), 1, mod, fn)
        params = set(q.func_params(fn))
        for lp in loops:
            carried = q.loop_carried(lp)
            rr.ob(f'{name}: no value is carried from one topic to the next', not carried, mod, carried[0][1] if carried else lp,
                  witness=', '.join(sorted({f"{n} (read at line {nd.lineno} before this iteration binds it)" for n, nd in carried}))[:300] or 'every name the loop binds is bound before it is read in each iteration',
                  key=f'topic-independent|{name}')
            rebound = sorted({n.id for n in ast.walk(lp) if isinstance(n, ast.Name) and isinstance(n.ctx, ast.Store) and n.id in params and n.id != U(lp.iter).split('.')[0]})
            rr.ob(f'{name}: the per-call arguments are not rebound inside the per-topic loop', not rebound, mod, lp, witness=', '.join(rebound) or 'none rebound', key=f'params-not-rebound|{name}')


@rule('C09.R11', "the cached JPEG that is put on the wire belongs to pixels that cannot have changed since it was made: a read-only array is adopted without a copy only when nothing else can write its memory (shares C10.R11)")
def r11(rr, repo):
    from .c10 import r11 as c10r11
    c10r11(rr, repo)


@rule('C09.R12', "decision table of Frame.from_blob, the constructor the decoder builds every image frame with: the blob is kept as the cached JPEG exactly when it starts with the JPEG magic; with both dimensions "
                 "declared AND a JPEG nothing is decoded (image pending, shape = the declared one: (h, w) for GRAY, (h, w, 3) otherwise); in every other case the blob is decoded with the declared format and "
                 "the shape is the decoded one; the label is the declared format or BGR; the frame that is returned is the one that was filled; Frame.decode returns what imdecode produced and raises when it produced nothing")
def r12(rr, repo):
    from .c10 import acc_paths
    mod, fn, paths = acc_paths(repo, 'from_blob')
    rr.paths += len(paths)
    done = [p for p in paths if p.outcome is not None and p.outcome[0] == 'return']
    rr.floor('completed paths of Frame.from_blob', len(done), 6, mod, fn)
    MAGIC = "b'\\xff\\xd8'"
    rows = set()
    for p in done:
        st = {}
        for e in p.events:
            if e.kind == 'store' and '._Frame__' in e.term:
                st[e.term.split('._Frame__')[1]] = e
        fr = [e for e in p.events if e.kind == 'bind' and e.args and e.args[0].startswith('Frame(')]
        ret = p.outcome[1]
        rr.ob('from_blob returns the frame it built and filled', bool(fr) and ret is not None and all(e.term.startswith(fr[0].args[0] + '.') for e in st.values()) and U(ret) in (fr[0].term, fr[0].args[0]), mod, fn,
              witness=f'returns {U(ret) if ret is not None else None}; filled {sorted(st)}', key='blob-returns-built')
        if not {'jpg', 'image', 'shapef'} <= set(st):
            rr.ob('from_blob sets the cached JPEG, the image and the shape on every path', False, mod, fn, witness=f'sets {sorted(st)}: {p.pc_text()[:100]}', key='blob-complete')
            continue
        NB = 'bytearray(memoryview(blob))'       # on the path for non-bytes input the terms name the converted blob
        jpg = st['jpg'].args[0].replace(NB, 'blob').replace(' ', '')
        rr.ob("the blob is kept as the cached JPEG exactly when it starts with the JPEG magic b'\\xff\\xd8' (otherwise: no encoding yet)", jpg == f"blobifblob[:2]=={MAGIC}elseFalse".replace(' ', ''), mod, st['jpg'].node,
              witness=st['jpg'].args[0][:80], key='blob-jpg-iff-magic')
        isj = [v for k, v in p.pc if k.replace(NB, 'blob').replace(' ', '') in (f"eq({MAGIC},blob[:2])", f"eq(blob[:2],{MAGIC})")]
        hn, wn = p.facts.get('isnone(height)'), p.facts.get('isnone(width)')
        dims = (hn is False and wn is False)
        decoded = [e for e in p.events if e.kind == 'call' and e.term == 'Frame.decode']
        img, shp = st['image'].args[0].replace(NB, 'blob'), st['shapef'].args[0].replace(NB, 'blob').replace(' ', '')
        if dims and isj and isj[-1] is True:
            rows.add('lazy')
            want = "((height,width)ifformat=='GRAY'else(height,width,3),formator'BGR')"
            rr.ob('JPEG with both dimensions declared: nothing is decoded, the image is pending (False) and the shape is the declared one - (h, w) for GRAY, (h, w, 3) otherwise - labelled with the declared format or BGR',
                  not decoded and img == 'False' and shp == want, mod, st['shapef'].node, witness=f'image={img}; shape={st["shapef"].args[0][:90]}; decode calls: {len(decoded)}', key='blob-lazy-row')
        else:
            rows.add('eager')
            okd = len(decoded) == 1 and [a.strip().replace(NB, 'blob') for a in decoded[0].args] == ['blob', 'format'] and img == 'Frame.decode(blob, format)' and shp == "(Frame.decode(blob,format).shape,formator'BGR')"
            rr.ob('otherwise the blob is decoded once with the declared format, the frame holds that image and its shape, labelled with the declared format or BGR', okd, mod, st['image'].node,
                  witness=f'image={img[:40]}; shape={st["shapef"].args[0][:70]}', key='blob-eager-row')
            if hn is None or (hn is False and wn is None) or not isj:
                rr.ob('the choice between pending and decoded rests on both dimensions and on the JPEG magic', False, mod, fn, witness=p.pc_text()[:160], key='blob-choice-untested')
    rr.ob('from_blob has a pending (lazy) and a decoded (eager) row', rows == {'lazy', 'eager'}, mod, fn, witness=str(sorted(rows)), key='blob-rows')
    # non-bytes input is copied into a bytearray first; the format is validated before anything is built
    nb = [p for p in done if p.facts.get('truthy(isinstance(blob, (bytes, bytearray)))') is False]
    rr.floor('paths for a blob that is not bytes / bytearray', len(nb), 1, mod, fn)
    for p in nb[:1]:
        conv = [e for e in p.events if e.kind == 'bind' and e.term == 'blob']
        rr.ob('a blob that is not bytes / bytearray is copied into a bytearray before it is looked at', bool(conv) and conv[0].args[0].replace(' ', '') == 'bytearray(memoryview(blob))', mod, fn, witness=conv[0].args[0] if conv else 'not converted', key='blob-normalised')
    for p in done[:1]:
        calls = [e.term for e in p.events if e.kind == 'call']
        rr.ob('the declared format is validated before the frame is built', 'Frame.validate_format' in calls and calls.index('Frame.validate_format') < calls.index('Frame'), mod, fn, witness=str(calls[:4]), key='blob-format-validated')
    # Frame.decode
    dmod, dfn, dpaths = acc_paths(repo, 'decode')
    rets = [p for p in dpaths if p.outcome is not None and p.outcome[0] == 'return']
    raises = [p for p in dpaths if p.outcome is not None and p.outcome[0] == 'raise']
    okr = bool(rets) and all(p.outcome[1] is not None and 'imdecode(' in U(p.outcome[1]) or (p.outcome[1] is not None and U(p.outcome[1]) == 'image') for p in rets) and \
        all(any(k.startswith('isnone(') and 'imdecode' in k and v is False for k, v in p.pc) for p in rets)
    okx = bool(raises) and all(any(k.startswith('isnone(') and 'imdecode' in k and v is True for k, v in p.pc) for p in raises)
    rr.ob('Frame.decode returns the image imdecode produced, and raises exactly when imdecode produced nothing', okr and okx, dmod, dfn, witness=f'{len(rets)} returning, {len(raises)} raising paths', key='decode-returns-image')


@rule('C09.R13', "a frame set with no topics is a frame set: MQ.send hands every result that is not None to the sender (only None means 'nothing to send'), so the empty set is encoded, published and decoded as an "
                 "empty set like any other (shares C03.R3)")
def r13(rr, repo):
    from .c03 import r3 as c03r3
    c03r3(rr, repo)


@rule('C09.R14', "the same topics come out: the name the receiver reads off a message's first frame is the inverse of the framing the publisher put around it (exactly one leading delimiter - none for a hidden name - and "
                 "exactly one trailing delimiter are removed, nothing of the name itself), for hidden, normal and control frames (shares C02.R5)")
def r14(rr, repo):
    from .c02 import r5 as c02r5
    c02r5(rr, repo)


def _mutable_default(node):
    return isinstance(node, (ast.Dict, ast.List, ast.Set, ast.DictComp, ast.ListComp, ast.SetComp)) or \
        (isinstance(node, ast.Call) and U(node.func) in ('dict', 'list', 'set', 'bytearray', 'defaultdict', 'collections.defaultdict', 'OrderedDict'))


def _escaping_mutable_defaults(fn):
    """parameters of `fn` whose default is a mutable object created once, at definition time, and which the function hands out (returns or stores): every call without the argument gets the same object"""
    a = fn.args
    pos = a.posonlyargs + a.args
    pairs = list(zip(pos[len(pos) - len(a.defaults):], a.defaults)) + [(p, d) for p, d in zip(a.kwonlyargs, a.kw_defaults) if d is not None]
    out = []
    for p, d in pairs:
        if not _mutable_default(d):
            continue
        name = p.arg
        def mentions(x):
            return any(isinstance(n, ast.Name) and n.id == name and isinstance(n.ctx, ast.Load) for n in ast.walk(x))
        esc = [n for n in walk_scope(fn) if (isinstance(n, ast.Return) and n.value is not None and mentions(n.value)) or
               (isinstance(n, ast.Assign) and any(isinstance(t, (ast.Attribute, ast.Subscript)) for t in n.targets) and mentions(n.value)) or
               (isinstance(n, ast.Call) and isinstance(n.func, ast.Attribute) and n.func.attr in ('append', 'setdefault', 'update', 'add') and any(mentions(x) for x in n.args))]
        if esc:
            out.append((name, d, esc[0]))
    return out


@rule('C09.R15', "a frame that is sent with empty data arrives with empty data - its own: the data dict of a frame built without data is created for that frame ({} evaluated per call). One dict shared by "
                 "every such frame (a mutable default argument that is handed out) equals {} only until someone annotates a received frame in place - from then on every frame decoded without a data "
                 "part carries that annotation, other topics of the set and all later sets included")
def r15(rr, repo):
    mod, init = repo.find(f'{FR}::Frame.__init__')
    params = q.func_params(init)
    data = params[2] if len(params) > 2 else 'data'
    n = 0
    def when_none(v):
        """the sub-expression of `v` that is the value when `data` is None; None if `v` does not depend on it that way"""
        if isinstance(v, ast.IfExp) and isinstance(v.test, ast.Compare) and len(v.test.ops) == 1 and U(v.test.left) == data and U(v.test.comparators[0]) == 'None':
            if isinstance(v.test.ops[0], ast.Is):
                return when_none(v.body) or v.body
            if isinstance(v.test.ops[0], ast.IsNot):
                return when_none(v.orelse) or v.orelse
        return None
    stores = [st for st in walk_scope(init) if isinstance(st, ast.Assign) and any(isinstance(t, ast.Attribute) and t.attr.endswith('__data') for t in st.targets)]
    for st in stores:
        g = q.effective_guards(st, init)
        v = when_none(st.value)
        if v is None:
            if any(t.replace(' ', '') == f'{data}isNone' and pol for t, pol in g):
                v = st.value
            elif isinstance(st.value, ast.Call) and any(isinstance(x, ast.Name) and x.id == data for a_ in st.value.args for x in ast.walk(a_)):
                v = st.value          # a helper that is given `data` decides
            else:
                continue              # a store for the other cases (a dict or a Frame was passed)
        src = U(v)
        if '__data' in src and not isinstance(v, ast.Call):            # taken from the Frame passed as image: that frame's own dict (sharing between a frame and its copy is C10's subject)
            continue
        n += 1
        if src in ('{}', 'dict()'):
            rr.ob('a frame built without data gets a dict of its own', True, mod, st, witness=f'{U(st.targets[0])} = {src} when {data} is None', key='data-dict-per-frame')
            continue
        callee = None
        if isinstance(v, ast.Call):
            name = U(v.func).split('.')[-1]
            cands = [f for f in ast.walk(mod.tree) if isinstance(f, ast.FunctionDef) and f.name == name]
            callee = cands[0] if len(cands) == 1 else None
        if callee is not None and _escaping_mutable_defaults(callee):
            nm, d, esc = _escaping_mutable_defaults(callee)[0]
            rr.ob('a frame built without data gets a dict of its own', False, mod, st, witness=f'{U(st.targets[0])} = {src}: {callee.name}() hands out its default `{nm}={U(d)}`, one object for every call', key='data-dict-per-frame')
        else:
            rr.unresolved('where the data dict of a frame built without data comes from was not recognised', mod, st, witness=f'{U(st.targets[0])} = {src}'[:120], key='data-dict-per-frame')
    rr.floor('stores of Frame.__init__ that give a frame built without data its dict', n, 1, mod, init)
    # the same for every helper of the codec: no function of frame.py / mq.py hands out a mutable default
    k = 0
    for path in (FR, MQF):
        m = repo.module(path)
        for fn in [f for f in ast.walk(m.tree) if isinstance(f, (ast.FunctionDef, ast.AsyncFunctionDef))]:
            k += 1
            for nm, d, esc in _escaping_mutable_defaults(fn):
                rr.ob('no function of the codec hands out a mutable default argument', False, m, esc, witness=f'{fn.name}({nm}={U(d)}) ... {U(esc)[:60]}', key=f'mutable-default-handed-out|{fn.name}|{nm}')
    rr.floor('functions of frame.py and mq.py looked at', k, 40, mod, init)


@rule('C09.R16', "every topic's frame arrives with ITS format, size and encoding: the image header of a topic message is built from that topic's frame on every turn of the encoder's loop. A header "
                 "remembered across topics (a per-call table keyed by the identity of the pixel buffer or of the cached JPEG) gives the second of two frames that SHARE their pixels under different "
                 "format labels - Frame(bgr_frame, data, 'RGB') relabels without copying - the first one's label")
def r16(rr, repo):
    from ..model import ancestors as _anc
    mod, fn = repo.find(f'{MQF}::MQ.frames2topicmsgs')
    heads = [n for n in ast.walk(fn) if isinstance(n, ast.Assign) and isinstance(n.value, ast.Dict) and any(q.const_str(k) == 'img' for k in n.value.keys if k is not None)]
    heads += [n for n in ast.walk(fn) if isinstance(n, ast.Dict) and any(q.const_str(k) == 'img' for k in n.keys if k is not None) and not any(isinstance(a, ast.Assign) and a.value is n for a in _anc(n))]
    rr.floor("constructions of the image header {'img': [...]} in the encoder", len(heads), 1, mod, fn)
    for h in heads:
        loops = [a for a in _anc(h) if isinstance(a, ast.For)]
        if not loops:
            rr.unresolved('the image header is not built inside the loop over the topics', mod, h, key='header-per-topic')
            continue
        loop = loops[0]
        outer_tables = {U(t) for n in walk_scope(fn) if isinstance(n, ast.Assign) and not any(a is loop for a in _anc(n)) and isinstance(n.value, (ast.Dict, ast.Call)) and
                        (isinstance(n.value, ast.Dict) and not n.value.keys or (isinstance(n.value, ast.Call) and U(n.value.func) in ('dict', 'defaultdict', 'OrderedDict'))) for t in n.targets}
        outer_tables -= {U(t) for n in walk_scope(fn) if isinstance(n, ast.Return) and n.value is not None for t in [n.value]}      # the result dict is not a memo
        g = q.effective_guards(h if isinstance(h, ast.stmt) else q.enclosing_stmt(h), loop)
        memo = [(t, p_) for t, p_ in g if any(re.search(rf'\b{re.escape(tb)}\b', t) for tb in outer_tables) or any(isinstance(w, ast.NamedExpr) and any(re.search(rf'\b{re.escape(tb)}\b', U(w.value)) for tb in outer_tables)
                for w in ast.walk(ast.parse(t, mode='eval')) )]
        rr.ob("the header is built for every topic's own frame (not only when a table kept across topics has no entry yet)", not memo, mod, h,
              witness=(f'built only when {memo}' if memo else f'guards inside the loop: {g}')[:200], key='header-per-topic')
