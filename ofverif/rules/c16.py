"""C16 - only allow-listed metrics are exported; an empty allow-list exports nothing (necessary structural conditions)."""

from __future__ import annotations

import ast
import re

from . import rule
from ..model import Unresolved, walk_scope, parent, enclosing_function, enclosing_class, qualname, ancestors as ancestors_of
from ..paths import U, Path, Evaluator
from .. import q

BR = 'openfilter/observability/bridge.py'
CF = 'openfilter/observability/config.py'
CL = 'openfilter/observability/client.py'


def export_paths(repo):
    c = repo.__dict__.setdefault('_c16', {})
    if 'export' not in c:
        mod, fn = repo.find(f'{BR}::OTelLineageExporter.export')
        q.expect_locals(mod, fn, ['facet', 'name', 'bucket_counts', 'explicit_bounds', 'point', 'dp', 'metrics'])
        ev = Evaluator(repo, mod, unroll_for=1)
        ev.scope_node = fn
        c['export'] = (mod, fn, ev.run(fn.body))
    return c['export']


def metric_name_terms(p: Path):
    """terms that denote the metric's name on this path: <dp>.name where dp iterates `<sm>.metrics`"""
    return {e.args[0] for e in p.events if e.kind == 'bind' and e.args and re.search(r'\.metrics\)\.name$', e.args[0])}


@rule('C16.R1', 'guard dominance: every facet entry keyed by a metric name is stored only on paths where the allow-list test for that name '
                'succeeded (or the list is explicitly None = documented allow-all of the direct API); never through falsiness of the list')
def r1(rr, repo):
    mod, fn, paths = export_paths(repo)
    rr.paths += len(paths)
    sites = set()
    for p in paths:
        names = metric_name_terms(p)
        for e in p.events:
            if e.kind == 'store' and e.term.startswith('facet[') and any(nm in e.term for nm in names):
                sites.add(id(e.node))
                pc = dict(p.pc[:e.pc_len])
                allowed = [v for k, v in pc.items() if k.startswith('truthy(self._is_allowed(')]
                isnone = pc.get('isnone(self._allow)')
                falsy = pc.get('truthy(self._allow)')
                if allowed and allowed[-1] is True:
                    rr.holds('metric stored after its name passed the allow-list test', mod, e.node, key=f'allowed|{e.raw[:50]}')
                elif isnone is True:
                    rr.holds('metric stored because the allow-list is explicitly None (allow-all of the direct API)', mod, e.node, key=f'none|{e.raw[:50]}')
                else:
                    rr.violated('a metric reaches the exported facet without having passed the allow-list test' + (' (the test is skipped when the list is empty/falsy)' if falsy is False else ''),
                                mod, e.node, witness=p.pc_text(e.pc_len)[-400:], key=f'unguarded|{e.raw[:50]}|falsy={falsy}')
    rr.floor('facet stores keyed by a metric name', len(sites), 3, mod, fn)


@rule('C16.R2', 'no default-allow on an empty list: _is_allowed answers True only through membership, fnmatch success or an explicit `is None` test')
def r2(rr, repo):
    mod, fn = repo.find(f'{BR}::OTelLineageExporter._is_allowed')
    q.expect_locals(mod, fn, ['self'])
    ev = Evaluator(repo, mod, unroll_for=1)
    paths = ev.run(fn.body)
    rr.paths += len(paths)
    param = q.func_params(fn)[1]
    n = 0
    for p in paths:
        o = p.outcome
        val = None
        if o is None:
            val = None
        elif o[0] == 'return' and o[1] is not None:
            ok, val = Evaluator.const_of(o[1])
            if not ok:
                rr.unresolved('_is_allowed returns a non-constant', mod, fn, witness=p.outcome_text(), key='nonconst')
                continue
        if val is True:
            n += 1
            member = p.facts.get(f'in({param}, self._allow)') is True
            fn_ok = any(k.startswith('truthy(fnmatch.fnmatch(') and v is True for k, v in p.facts.items())
            none = p.facts.get('isnone(self._allow)') is True
            falsy = p.facts.get('truthy(self._allow)') is False
            if member or fn_ok or none:
                rr.holds('True via membership / fnmatch / explicit None', mod, fn, witness=f'{p.pc_text()} => True', key=f'true-path|member={member}|fnmatch={fn_ok}|none={none}')
            elif falsy:
                rr.violated('an empty / falsy allow-list answers True (default-allow)', mod, fn, witness=f'{p.pc_text()} => True', key='true-path|falsy')
            elif not [kk for kk, v in p.facts.items() if v is True and 'self._allow' in kk]:
                rr.violated('a metric name is allowed by a test that does not consult the configured allow-list at all', mod, fn, witness=f'{p.pc_text()} => True', key='true-path|not-list-based')
            else:
                # a compiled-regex match: prefix matching (`.match` / `.search` of a pattern without an end anchor) admits every name that merely starts with an allowed pattern
                rx = [kk for kk, v in p.facts.items() if v is True and kk.startswith('truthy(') and ('.match(' in kk or '.search(' in kk or '.fullmatch(' in kk)]
                verdict = None
                for kk in rx:
                    if '.fullmatch(' in kk:
                        verdict = True if verdict is None else verdict
                        continue
                    recv = kk[len('truthy('):kk.rfind('.match(' if '.match(' in kk else '.search(')]
                    attr = recv.split('.')[-1]
                    cls = enclosing_class(fn)
                    builds = [c for c in q.calls_in(cls) if U(c.func) in ('re.compile', 'compile') and any(isinstance(t, ast.Attribute) and t.attr == attr for a in ancestors_of(c) if isinstance(a, ast.Assign) for t in a.targets)]
                    helper = [f for f in cls.body if isinstance(f, ast.FunctionDef) and any(isinstance(c, ast.Call) and U(c.func) == 're.compile' for c in ast.walk(f))]
                    srcs = ' '.join(U(f) for f in helper) + ' '.join(U(c) for c in builds)
                    anchored = 'fnmatch.translate' in srcs or "\\Z" in srcs or "'$'" in srcs or '"$"' in srcs or ')$' in srcs
                    verdict = False if not anchored else (True if verdict is None else verdict)
                if verdict is False:
                    rr.violated('wildcards are matched with an unanchored regex match (prefix match): a metric whose name merely starts with an allowed pattern is exported', mod, fn, witness=f'{p.pc_text()} => True', key='true-path|unanchored-regex')
                elif verdict is True:
                    rr.holds('True via an anchored regex match', mod, fn, witness=f'{p.pc_text()} => True', key='true-path|anchored-regex')
                else:
                    rr.unresolved('_is_allowed answers True through a predicate outside the rule vocabulary (membership, fnmatch, explicit None, anchored regex)', mod, fn, witness=f'{p.pc_text()} => True', key='true-path|unknown')
        elif val is False or val is None:
            pass
    rr.floor('paths of _is_allowed answering True', n, 2, mod, fn)
    # wildcard semantics is fnmatch over the list's own entries
    fm = [c for c in q.calls_in(fn) if U(c.func) in ('fnmatch.fnmatch', 'fnmatch.fnmatchcase', 'fnmatch')]
    if fm:
        rr.ob('fnmatch is applied as fnmatch(metric_name, pattern)', all(U(c.args[0]) == param for c in fm), mod, fn, key='fnmatch-args')


@rule('C16.R3', 'default is lock-down: read_allowlist returns a set on every path, the fall-through value is the empty set, and the client passes it unmodified')
def r3(rr, repo):
    mod, fn = repo.find(f'{CF}::read_allowlist')

    def inline(call, rc, path):     # helpers of the same module are part of the decision (e.g. a `_read_allowlist_file`)
        if isinstance(rc.func, ast.Name):
            for st in mod.tree.body:
                if isinstance(st, ast.FunctionDef) and st.name == rc.func.id and st is not fn:
                    return (mod, st, None)
        return None
    ev = Evaluator(repo, mod, inline=inline)
    ev.explore_handlers = True       # a configured file that cannot be read / parsed must fall back to lock-down, not to "allow all"
    paths = ev.run(fn.body)
    rr.paths += len(paths)
    n = 0
    for p in paths:
        o = p.outcome
        if o is None or o[0] != 'return' or o[1] is None:
            if o is not None and o[0] == 'raise':
                continue
            rr.violated('read_allowlist can end without returning a set', mod, fn, witness=p.pc_text(), key='no-return')
            continue
        n += 1
        t = U(o[1])
        rr.ob('read_allowlist returns a set(...) on every path, also when reading the configured file failed (None would mean "allow all" to the exporter)', t.startswith('set('), mod, fn,
              witness=f'{p.pc_text()[-160:]} => return {t[:60]}', key=f'returns-set|{t[:30]}')
        envs = [v for k, v in p.facts.items() if k.startswith('truthy(os.getenv(')]
        if envs and not any(envs):
            rr.ob('with neither file nor variable configured the allow-list is the empty set', t == 'set()', mod, fn, witness=t, key='default-empty')
    rr.floor('returning paths of read_allowlist', n, 2, mod, fn)
    cm = repo.module(CL)
    cons = [c for c in q.calls_in(cm.tree) if U(c.func).endswith('OTelLineageExporter')]
    rr.floor('constructions of OTelLineageExporter in the client', len(cons), 1, cm, cm.tree)
    for c in cons:
        a = q.kwarg(c, 'allowlist') or (c.args[1] if len(c.args) > 1 else None)
        ok = False
        if a is not None:
            if isinstance(a, ast.Call) and U(a.func).endswith('read_allowlist'):
                ok = True
            elif isinstance(a, ast.Name):
                fn_ = enclosing_function(c)
                asg = [n_ for n_ in ast.walk(fn_) if isinstance(n_, ast.Assign) and any(isinstance(t, ast.Name) and t.id == a.id for t in n_.targets)]
                ok = len(asg) == 1 and isinstance(asg[0].value, ast.Call) and U(asg[0].value.func).endswith('read_allowlist') and not asg[0].value.args
        rr.ob('the client hands read_allowlist() to the exporter unmodified', ok, cm, c, witness=U(a) if a is not None else 'no allowlist argument', key='client-passes')
    bm, ctor = repo.find(f'{BR}::OTelLineageExporter.__init__')
    st = [s for s, t in q.stores_to_attr(repo.find(f'{BR}::OTelLineageExporter')[1], '_allow')]
    rr.ob('the exporter keeps the allow-list as given (single store, self._allow = allowlist)', len(st) == 1 and isinstance(st[0], ast.Assign) and U(st[0].value) == 'allowlist', bm, st[0] if st else ctor, key='allow-stored')


@rule('C16.R4', 'histogram facet shape: counts are brought to len(bounds) + 1 on every path before they are stored, and every stored field is numeric (int()/float())')
def r4(rr, repo):
    mod, fn, paths = export_paths(repo)
    n = 0
    for p in paths:
        for e in p.events:
            if e.kind == 'store' and e.term.startswith('facet[') and '_histogram' in e.term and isinstance(e.value, ast.Dict):
                n += 1
                d = {q.const_str(k): v for k, v in zip(e.value.keys, e.value.values) if k is not None}
                pc = p.pc[:e.pc_len]
                mism = [(k, v) for k, v in pc if k.startswith('eq(') and 'bucket_counts' in k and 'explicit_bounds' in k and '+ 1' in k]
                counts = U(d.get('counts')) if d.get('counts') is not None else ''
                if mism and mism[-1][1] is False:
                    fixed = '[:len(' in counts and '+ 1]' in counts
                    ext = [c for c in p.events if c.kind == 'call' and c.term.endswith('.extend') and '+ 1 - len(' in (c.args[0] if c.args else '')]
                    rr.ob('mismatched histogram: counts are truncated or zero-padded to len(bounds) + 1', fixed or bool(ext), mod, e.node, witness=p.pc_text(e.pc_len)[-300:], key=f'hist-fix|trunc={fixed}|ext={bool(ext)}')
                    # truncating only repairs "too many", padding only "too few": the branch must be chosen by comparing with exactly len(bounds) + 1
                    rel = [(k, v) for k, v in pc if k.startswith('ord(') and 'bucket_counts' in k and 'explicit_bounds' in k]
                    if rel:
                        k_, v_ = rel[-1]
                        inner = k_[4:-1]
                        exact = '+ 1' in inner and '- 1' not in inner and '+ 2' not in inner
                        counts_first = inner.replace(' ', '').startswith('len(bucket_counts)') or inner.replace(' ', '').startswith('len([int(count)')
                        more = (v_ == '>') if counts_first else (v_ == '<')
                        rr.ob('truncation is chosen exactly for "more counts than len(bounds) + 1", zero-padding for "fewer"', exact and ((fixed and more) or (bool(ext) and not fixed and not more)), mod, e.node,
                              witness=f'{k_[:120]} {v_}; truncated={fixed} padded={bool(ext)}', key=f'hist-fix-branch|{"trunc" if fixed else "pad"}')
                    else:
                        rr.unresolved('mismatched histogram: the choice between truncating and padding is not an order comparison of the two lengths', mod, e.node, witness=p.pc_text(e.pc_len)[-200:], key='hist-fix-branch')
                elif not mism:
                    rr.violated('histogram stored without comparing len(counts) with len(bounds) + 1', mod, e.node, witness=p.pc_text(e.pc_len)[-300:], key='hist-nocheck')
                num = lambda x, f: x is not None and (re.match(rf'^\[{f}\(\w+\) for ', U(x)) is not None or U(x).startswith(f'{f}(') or re.match(rf'^{f}\(.*\) if .* else \d', U(x)) is not None)
                rr.ob("'buckets' are floats", num(d.get('buckets'), 'float'), mod, e.node, witness=U(d.get('buckets'))[:80] if d.get('buckets') is not None else '', key='hist-buckets')
                rr.ob("'counts' are ints", 'int(count)' in counts or num(d.get('counts'), 'int'), mod, e.node, witness=counts[:80], key='hist-counts')
                rr.ob("'count' is an int", num(d.get('count'), 'int'), mod, e.node, witness=U(d.get('count'))[:80] if d.get('count') is not None else '', key='hist-count')
                rr.ob("'sum' is a float", num(d.get('sum'), 'float'), mod, e.node, witness=U(d.get('sum'))[:80] if d.get('sum') is not None else '', key='hist-sum')
            elif e.kind == 'store' and e.term.startswith('facet[') and '_histogram' not in e.term and 'raw_subject_data' not in e.term:
                rr.ob('counter / gauge values are stored as int(...) / float(...)', e.args[0].startswith('int(') or e.args[0].startswith('float('), mod, e.node, witness=e.args[0][:60], key=f'scalar|{e.args[0][:12]}')
    rr.floor('histogram stores', n, 1, mod, fn)


LN = 'openfilter/observability/lineage.py'


def _mutable_default(node) -> bool:
    return isinstance(node, (ast.Dict, ast.List, ast.Set)) or (isinstance(node, ast.Call) and U(node.func) in ('dict', 'list', 'set', 'defaultdict'))


@rule('C16.R5', 'what the heartbeat sends is this emitter\'s last filtered facet and nothing else: the metric facets handed to update_heartbeat_lineage replace the stored ones, '
                'and no emitter method accumulates entries in a dict that several emitters can share (a mutable default argument)')
def r5(rr, repo):
    mod, cls = repo.find(f'{LN}::OpenFilterLineage')
    _, init = repo.find(f'{LN}::OpenFilterLineage.__init__')
    _, upd = repo.find(f'{LN}::OpenFilterLineage.update_heartbeat_lineage')
    a = init.args
    pos = a.posonlyargs + a.args
    defaults = dict(zip([x.arg for x in pos[len(pos) - len(a.defaults):]], a.defaults))
    defaults.update({x.arg: d for x, d in zip(a.kwonlyargs, a.kw_defaults) if d is not None})
    shared_params = {n for n, d in defaults.items() if _mutable_default(d)}
    shared_attrs = set()
    for n in ast.walk(init):
        if isinstance(n, ast.Assign) and isinstance(n.value, ast.Name) and n.value.id in shared_params:
            for t in n.targets:
                if isinstance(t, ast.Attribute) and U(t.value) == 'self':
                    shared_attrs.add(t.attr)
    # the attribute the heartbeat event is built from
    _, emit = repo.find(f'{LN}::OpenFilterLineage._emit_event')
    hb = {x.attr for x in ast.walk(emit) if isinstance(x, ast.Attribute) and U(x.value) == 'self' and x.attr in {t.attr for n in ast.walk(upd) if isinstance(n, (ast.Assign, ast.AugAssign, ast.Expr)) for t in ast.walk(n) if isinstance(t, ast.Attribute) and U(t.value) == 'self'}}
    params = {x.arg for x in upd.args.args + upd.args.kwonlyargs}
    stores = [n for n in ast.walk(upd) if isinstance(n, ast.Assign) and isinstance(n.value, ast.Name) and n.value.id in params and
              any(isinstance(t, ast.Attribute) and U(t.value) == 'self' and t.attr in hb for t in n.targets)]
    facet_attrs = {t.attr for n in stores for t in n.targets if isinstance(t, ast.Attribute)}
    merges = [n for n in ast.walk(upd) if isinstance(n, ast.Call) and isinstance(n.func, ast.Attribute) and n.func.attr == 'update' and U(n.func.value).startswith('self.') and
              n.func.value.attr in hb and any(isinstance(x, ast.Name) and x.id in params for x in n.args)]
    facet_attrs |= {n.func.value.attr for n in merges}
    rr.floor('stores of the handed-over facets in update_heartbeat_lineage (replace or merge)', len(stores) + len(merges), 1, mod, upd)
    n_sites = 0
    for attr in sorted(shared_attrs | facet_attrs):
        may_be_shared = attr in shared_attrs
        for fn in [x for x in cls.body if isinstance(x, (ast.FunctionDef, ast.AsyncFunctionDef))]:
            for n in ast.walk(fn):
                site = None
                if isinstance(n, ast.Call) and isinstance(n.func, ast.Attribute) and n.func.attr in ('update', 'setdefault', '__ior__', 'extend', 'append', 'add') and U(n.func.value) == f'self.{attr}':
                    site = (n, f'self.{attr}.{n.func.attr}(...)', n.func.attr != 'setdefault' or not (n.args and isinstance(n.args[0], ast.Constant)))
                elif isinstance(n, ast.AugAssign) and U(n.target) == f'self.{attr}':
                    site = (n, f'self.{attr} {type(n.op).__name__}= ...', True)
                elif isinstance(n, (ast.Assign, ast.AugAssign)):
                    for t in (n.targets if isinstance(n, ast.Assign) else [n.target]):
                        if isinstance(t, ast.Subscript) and U(t.value) == f'self.{attr}':
                            site = (n, U(t), not isinstance(t.slice, ast.Constant))
                if site is None:
                    continue
                n_sites += 1
                node, what, bulk = site
                if not bulk:
                    rr.holds(f'in-place store of one fixed, non-metric key into self.{attr}', mod, node, witness=what, key=f'inplace-const|{qualname(fn)}|{what}')
                elif may_be_shared:
                    rr.violated(f'self.{attr} may be the default argument object shared by every emitter built without facets ({", ".join(sorted(shared_params))}={U(defaults[sorted(shared_params)[0]])}); '
                                f'accumulating entries in it in place carries one emitter\'s exported metrics into the heartbeat of another emitter whose allow-list does not admit them',
                                mod, node, witness=what, key=f'shared-accumulate|{qualname(fn)}|{what}')
                else:
                    rr.holds(f'in-place update of self.{attr}, which is never a shared default object', mod, node, witness=what, key=f'inplace-own|{qualname(fn)}|{what}')
    rr.sites += n_sites
    # the exporter hands the filtered facet over by keyword
    bmod, exp = repo.find(f'{BR}::OTelLineageExporter.export')
    calls = q.attr_calls(exp, 'update_heartbeat_lineage')
    rr.floor('hand-over calls in the exporter', len(calls), 1, bmod, exp)
    for c in calls:
        kw = {k.arg: U(k.value) for k in c.keywords}
        rr.ob('the exporter hands over the dict it filled under the allow-list test, nothing else', set(kw) <= {'facets'} and not c.args and 'facets' in kw, bmod, c, witness=U(c)[:120], key='handover')


@rule('C16.R6', "an allow-list entry is a whole name as configured: the value read from the YAML file is never turned into a set by iterating over it unless it is known not to be a string - set('frames_*') is the set of "
                "its CHARACTERS, one of them a bare '*', which allows every metric; the environment form splits at commas first")
def r6(rr, repo):
    mod, fn = repo.find(f'{CF}::read_allowlist')
    gets = [c for c in q.calls_in(fn) if isinstance(c.func, ast.Attribute) and c.func.attr == 'get' and c.args and q.const_str(c.args[0]) == 'safe_metrics']
    rr.floor("reads of 'safe_metrics' from the YAML document", len(gets), 1, mod, fn)
    for g in gets:
        st = q.enclosing_stmt(g)
        names = {U(t) for t in st.targets} if isinstance(st, ast.Assign) else set()
        # every construct that iterates the value (set(x), a comprehension over x, a for loop over x)
        def iterates(n):
            if isinstance(n, ast.Call) and U(n.func) in ('set', 'frozenset', 'list', 'tuple') and n.args and (n.args[0] is g or U(n.args[0]) in names):
                return n.args[0]
            if isinstance(n, ast.comprehension) and (n.iter is g or U(n.iter) in names):
                return n.iter
            if isinstance(n, ast.For) and (n.iter is g or U(n.iter) in names):
                return n.iter
            return None
        its = [(n, iterates(n)) for n in ast.walk(fn) if iterates(n) is not None]
        rr.floor("places that iterate the 'safe_metrics' value", len(its), 1, mod, fn)
        for n, it in its:
            node = n if hasattr(n, 'lineno') else it
            # a string is ruled out before: an `if isinstance(<name>, str): <name> = <name>.split(..)` earlier in the same block, or the iteration sits in the else of such a test
            pre = [x for x in ast.walk(fn) if isinstance(x, ast.If) and isinstance(x.test, ast.Call) and U(x.test.func) == 'isinstance' and len(x.test.args) == 2 and U(x.test.args[0]) in names and 'str' in U(x.test.args[1])
                   and x.lineno < node.lineno and any(isinstance(a, ast.Assign) and U(a.targets[0]) in names and '.split(' in U(a.value) for a in x.body)]
            guarded = any(not pol and isinstance(t, ast.Call) and U(t.func) == 'isinstance' and 'str' in U(t.args[1]) for t, pol in q.guards_of(node, stop=fn))
            rr.ob("the YAML value is iterated only after a string has been ruled out (split into entries, or refused)", bool(pre) or guarded, mod, node,
                  witness=f'{U(node)[:100]}; isinstance(.., str) handled before: {bool(pre) or guarded}', key='yaml-scalar-not-iterated')
    envs = [c for c in ast.walk(fn) if isinstance(c, ast.comprehension) and '.split(' in U(c.iter)]
    rr.ob('the environment form splits the text at commas before anything iterates it', bool(envs), mod, fn, witness=U(envs[0].iter)[:60] if envs else 'no split', key='env-split')


LINF = 'openfilter/observability/lineage.py'


@rule('C16.R7', "exported histograms have numeric fields whatever the metric is called: the facet builder stringifies the elements of every list except the histogram's bucket bounds and counts, and it recognises those by the "
                "END of the flattened key ('<name>_histogram__buckets' / '__counts') - a metric name may itself contain the separator ('roi__occupancy', or characters the key normaliser turns into '_'), so "
                "cutting the key at its FIRST separator looks at the wrong piece and the bounds and counts go out as lists of strings")
def r7(rr, repo):
    mod, fn = repo.find(f'{LINF}::create_openfilter_facet_with_fields')
    loops = [n for n in walk_scope(fn) if isinstance(n, ast.For) and U(n.iter).endswith('.items()') and isinstance(n.target, ast.Tuple) and len(n.target.elts) == 2]
    sel = []
    for lp in loops:
        kname = U(lp.target.elts[0])
        for st in ast.walk(lp):
            if not isinstance(st, ast.If):
                continue
            has = lambda blk, f: any(isinstance(c, ast.Call) and U(c.func) == f for b in blk for c in ast.walk(b))
            if has(st.body, 'float') and has(st.orelse, 'str') and not has(st.orelse, 'float'):
                sel.append((lp, kname, st, st.test, st.body))
            elif has(st.orelse, 'float') and has(st.body, 'str') and not has(st.body, 'float') and isinstance(st.test, ast.UnaryOp) and isinstance(st.test.op, ast.Not):
                sel.append((lp, kname, st, st.test.operand, st.orelse))      # the same decision written the other way round
    rr.floor('tests that pick the lists kept numeric in the facet builder', len(sel), 1, mod, fn)
    for lp, kname, st, test, numeric in sel:
        flipped = False
        while isinstance(test, ast.UnaryOp) and isinstance(test.op, ast.Not):      # `if not (..): <numeric>`: the numeric branch is taken when the test FAILS
            test, flipped = test.operand, not flipped
        # names derived from the key in this loop: name -> (method, args) of the call on the key that produced it
        derived = {}
        for a in ast.walk(lp):
            if isinstance(a, ast.Assign) and isinstance(a.value, (ast.Call, ast.Subscript)):
                call = a.value
                sub = None
                if isinstance(call, ast.Subscript):
                    sub, call = call, call.value
                if isinstance(call, ast.Call) and isinstance(call.func, ast.Attribute) and U(call.func.value) == kname:
                    for t in a.targets:
                        for nm in ([e for e in t.elts] if isinstance(t, ast.Tuple) else [t]):
                            if isinstance(nm, ast.Name):
                                derived[nm.id] = (call.func.attr, [U(x) for x in call.args], U(sub.slice) if sub is not None else None)
        used = {n.id for n in ast.walk(test) if isinstance(n, ast.Name)}
        from_key = {n: derived[n] for n in used if n in derived}
        direct = [c for c in ast.walk(test) if isinstance(c, ast.Call) and isinstance(c.func, ast.Attribute) and U(c.func.value) == kname]
        verdict, wit = None, U(test)[:120]
        first_cut = [n for n, (m, args, idx) in from_key.items() if m == 'partition' or (m == 'split' and (len(args) < 2 or args[1] != '-1'))]
        last_cut = [n for n, (m, args, idx) in from_key.items() if m in ('rpartition', 'rsplit')]
        if first_cut or any(c.func.attr in ('partition', 'split', 'startswith', 'find', 'index') for c in direct):
            verdict = False
            wit = f'{wit}; {sorted(first_cut) or [U(c)[:40] for c in direct]} look at the key from its beginning / cut it at its first separator'
        elif direct and all(c.func.attr == 'endswith' for c in direct) and not from_key:
            sufs = [q.const_str(c.args[0]) and c.args[0].value for c in direct if c.args]
            ok = all(isinstance(x, str) for x in sufs) and any('_histogram__buckets'.endswith(x) for x in sufs) and any('_histogram__counts'.endswith(x) for x in sufs) and \
                all('_histogram__buckets'.endswith(x) or '_histogram__counts'.endswith(x) for x in sufs)
            # the suffix tests select the numeric branch in the positive sense, and either of them is enough (a key ends in ONE of the two)
            shape_ok = (isinstance(test, ast.Call) and len(direct) == 1) or (isinstance(test, ast.BoolOp) and isinstance(test.op, ast.Or) and all(isinstance(v, ast.Call) for v in test.values))
            if ok and (flipped or not shape_ok):
                verdict = False
                wit = f'{wit}; the suffix tests do not select the numeric branch ({"negated" if flipped else "combined with `and` / something else"})'
            else:
                verdict = True if ok else None
            wit = f'{wit}; suffixes tested: {sufs}'
        elif last_cut and not direct:
            verdict = True
            wit = f'{wit}; {sorted(last_cut)} come from the last separator of the key'
        if verdict is None:
            rr.unresolved('how the facet builder tells histogram lists from other lists was not recognised', mod, st, witness=wit, key='histogram-lists-by-suffix')
        else:
            rr.ob("histogram bounds and counts are recognised by the end of the flattened key, for every metric name", verdict, mod, st, witness=wit, key='histogram-lists-by-suffix')
        keep = [c for b in numeric for c in ast.walk(b) if isinstance(c, ast.IfExp) and U(c.body).startswith('float(') and isinstance(c.test, ast.Call) and U(c.test.func) == 'isinstance' and 'int' in U(c.test) and 'float' in U(c.test)] + \
               [c for b in numeric for c in ast.walk(b) if isinstance(c, ast.IfExp) and U(c.orelse).startswith('float(') and isinstance(c.test, ast.UnaryOp) and isinstance(c.test.op, ast.Not) and U(c.test.operand).startswith('isinstance(')
                and 'int' in U(c.test) and 'float' in U(c.test)]
        rr.ob('in that branch every int / float element stays a number', bool(keep), mod, st, witness=U(numeric[0])[:120], key='histogram-elements-numeric')


@rule('C16.R8', "a run exports only what ITS allow-list lets through: the emitter object outlives runs (it is a class attribute of Filter) and keeps the last facet the exporter gave it, and the exporter only replaces "
                "that facet when it has something to send - so the facet is emptied where a run begins (emit_start), otherwise a run in lock-down mode after a run with an allow-list sends the first run's metrics "
                "with every heartbeat")
def r8(rr, repo):
    mod, es = repo.find(f'{LINF}::OpenFilterLineage.emit_start')
    resets = [n for n in walk_scope(es) if isinstance(n, ast.Assign) and any(U(t) == 'self.facets' for t in n.targets)]
    fresh = [n for n in resets if (isinstance(n.value, ast.Dict) and not n.value.keys) or (isinstance(n.value, ast.Call) and U(n.value.func) == 'dict' and not n.value.args and not n.value.keywords)]
    first_emit = min([c.lineno for c in q.calls_in(es) if U(c.func).endswith('_emit_event')] or [10 ** 9])
    unconditional = [n for n in fresh if not [t for t, pol in q.guards_of(n, stop=es)] and n.lineno < first_emit]
    # the alternative: the exporter hands over its facet on every export, empty or not, and the emitter stores it as it is
    bmod, exp = repo.find(f'{BR}::OTelLineageExporter.export')
    ups = [c for c in q.calls_in(exp) if U(c.func).endswith('update_heartbeat_lineage') and q.kwarg(c, 'facets') is not None]
    always = [c for c in ups if not [t for t, pol in q.guards_of(c, stop=exp) if U(t) == U(q.kwarg(c, 'facets'))]]
    _, upd = repo.find(f'{LINF}::OpenFilterLineage.update_heartbeat_lineage')
    stores = [n for n in walk_scope(upd) if isinstance(n, ast.Assign) and any(U(t) == 'self.facets' for t in n.targets)]
    stores_always = [n for n in stores if not [t for t, pol in q.guards_of(n, stop=upd) if U(t) == 'facets']]
    ok = bool(unconditional) or (bool(always) and bool(stores_always))
    rr.ob('the facet the heartbeats carry is emptied at the start of every run (or replaced by every export, empty or not)', ok, mod, (unconditional or resets or [es])[0],
          witness=f'emit_start empties self.facets before START: {bool(unconditional)}; export() hands over an empty facet too: {bool(always) and bool(stores_always)}', key='facets-reset-per-run')


@rule('C16.R9', "an allow-list file that lists nothing means lock-down: YAML gives None for 'safe_metrics:' with nothing under it and for an empty document - the reader turns both into the empty list before it "
                "iterates (a default passed to .get() only covers a MISSING key), so the file still takes precedence; an exception there would be swallowed and the environment variable used instead")
def r9(rr, repo):
    mod, fn = repo.find(f'{CF}::read_allowlist')
    loads = [n for n in walk_scope(fn) if isinstance(n, ast.Assign) and any(isinstance(c, ast.Call) and U(c.func).endswith('safe_load') for c in ast.walk(n.value))]
    rr.floor('YAML loads in read_allowlist', len(loads), 1, mod, fn)
    def or_empty(v):
        return isinstance(v, ast.BoolOp) and isinstance(v.op, ast.Or) and isinstance(v.values[-1], (ast.Dict, ast.List, ast.Tuple, ast.Set)) and not getattr(v.values[-1], 'keys', getattr(v.values[-1], 'elts', None))
    for n in loads:
        doc = U(n.targets[0])
        guarded = or_empty(n.value) or any(isinstance(x, ast.If) and f'{doc} is None' in U(x.test) or isinstance(x, ast.If) and U(x.test) == f'not {doc}' for x in walk_scope(fn))
        rr.ob('an empty document is read as an empty mapping', guarded, mod, n, witness=U(n)[:100], key='empty-document')
    gets = [n for n in walk_scope(fn) if isinstance(n, ast.Assign) and any(isinstance(c, ast.Call) and isinstance(c.func, ast.Attribute) and c.func.attr == 'get' and c.args and q.const_str(c.args[0]) == 'safe_metrics' for c in ast.walk(n.value))]
    rr.floor("reads of 'safe_metrics'", len(gets), 1, mod, fn)
    for n in gets:
        nm = U(n.targets[0])
        guarded = or_empty(n.value) or any(isinstance(x, ast.If) and (f'{nm} is None' in U(x.test) or U(x.test) == f'not {nm}') for x in walk_scope(fn))
        rr.ob("a 'safe_metrics' key with no value is read as the empty list", guarded, mod, n, witness=U(n)[:100], key='null-means-empty')


@rule('C16.R10', "in lock-down mode nothing but what was asked for leaves: the one facet entry that is not a metric - the raw per-frame subject data - is added only when raw-data export was switched on explicitly "
                 "(and there is something to add)")
def r10(rr, repo):
    mod, exp = repo.find(f'{BR}::OTelLineageExporter.export')
    stores = [n for n in walk_scope(exp) if isinstance(n, ast.Assign) and isinstance(n.targets[0], ast.Subscript) and q.const_str(n.targets[0].slice) is not None and 'raw' in n.targets[0].slice.value]
    rr.floor('stores of raw subject data into the exported facet', len(stores), 1, mod, exp)
    for n in stores:
        g = q.effective_guards(n, exp)
        conj = []
        for t, p in g:
            conj += [(x.strip().strip('()'), True) for x in t.split(' and ')] if (p and ' and ' in t) else [(t, p)]
        on = any(p and t.replace(' ', '') == 'self._export_raw_data' for t, p in conj) and not any((not p) and 'self._export_raw_data' in t for t, p in conj)
        rr.ob('raw subject data is added to the facet only when self._export_raw_data is on', on, mod, n, witness=str(g)[:200], key='raw-data-opt-in')
    _, init = repo.find(f'{BR}::OTelLineageExporter.__init__')
    dflt = [n for n in walk_scope(init) if isinstance(n, ast.Assign) and U(n.targets[0]) == 'self._export_raw_data']
    rr.floor('initialisations of the raw-data switch', len(dflt), 1, mod, init)


@rule('C16.R11', "a histogram reaches the backend with the lists the exporter built: between the heartbeat facet and the event nothing changes the LENGTH of a list-valued field - bounds and counts are two separate "
                 "lists of n and n + 1 entries, any helper that shortens lists one by one (a cap on list length, de-duplication, dropping zeros) breaks 'one more count than bounds' for large histograms")
def r11(rr, repo):
    lm, em = repo.find(f'{LINF}::OpenFilterLineage._emit_event')
    _, mk = repo.find(f'{LINF}::create_openfilter_facet_with_fields')
    builds = [c for c in q.calls_in(em) if U(c.func) == 'create_openfilter_facet_with_fields' and (c.args or q.kwarg(c, 'data') is not None)]
    rr.floor('facet constructions in _emit_event', len(builds), 1, lm, em)
    SAFE = {'dict', 'copy', 'deepcopy', 'copy.copy', 'copy.deepcopy', 'flatten_dict', 'normalize_facet_keys', 'hide_uri_users_and_pwds_deep'}
    def length_changing(fn):
        # slices with a bound, filters in comprehensions, set() / dict.fromkeys() of a value list, del of elements
        out = []
        for n in ast.walk(fn):
            if isinstance(n, ast.Subscript) and isinstance(n.slice, ast.Slice) and (n.slice.upper is not None or n.slice.lower is not None or n.slice.step is not None) and not (isinstance(n.value, ast.Name) and n.value.id in ('k', 'key', 'name')):
                out.append(n)
            if isinstance(n, (ast.ListComp, ast.GeneratorExp)) and any(g.ifs for g in n.generators):
                out.append(n)
            if isinstance(n, ast.Call) and U(n.func) in ('set', 'frozenset', 'sorted', 'dict.fromkeys') and n.args:
                out.append(n)
        return out
    for b in builds:
        src = b.args[0] if b.args else q.kwarg(b, 'data')
        exprs = [src]
        if isinstance(src, ast.Name):
            exprs = [n.value for n in walk_scope(em) if isinstance(n, ast.Assign) and U(n.targets[0]) == src.id]
        for e in exprs:
            for c in [c for c in ast.walk(e) if isinstance(c, ast.Call)]:
                nm = U(c.func)
                if nm in SAFE or nm.startswith('self.') and nm.endswith('.get'):
                    continue
                try:
                    _, helper = repo.find(f'{LINF}::{nm}')
                except Unresolved:
                    rr.unresolved('a helper applied to the facet data on its way into the event could not be looked at', lm, c, witness=nm, key=f'facet-lists-untouched|{nm}')
                    continue
                bad = length_changing(helper)
                rr.ob('no helper between the heartbeat facet and the event changes the length of a list-valued field', not bad, lm, c,
                      witness=f'{nm}: {U(bad[0])[:60]}' if bad else nm, key=f'facet-lists-untouched|{nm}')
    # the field NAMES are part of the shape: the builder recognises bounds and counts by the end of the key (C16.R7), so the key normaliser must not cut keys - a length limit turns
    # '<long name>_histogram__counts' into '...__count' (the scalar count overwrites the list) or cuts the suffix off altogether
    _, nk = repo.find(f'{LINF}::normalize_facet_keys')
    nloops = [n for n in walk_scope(nk) if isinstance(n, ast.For) and U(n.iter).endswith('.items()') and isinstance(n.target, ast.Tuple)]
    if nloops:
        kname = U(nloops[0].target.elts[0])
        cuts = [x for x in ast.walk(nk) if isinstance(x, ast.Subscript) and isinstance(x.slice, ast.Slice) and x.slice.upper is not None and U(x.value) == kname and not (isinstance(x.slice.upper, ast.Constant) and x.slice.upper.value == 1)]
        rr.ob('the key normaliser never cuts a key short (the end of a key tells the builder what the field is)', not cuts, lm, cuts[0] if cuts else nk, witness=U(cuts[0])[:60] if cuts else '', key='facet-keys-not-truncated')
    # the facet builder itself maps list elements one to one
    comps = [n for n in ast.walk(mk) if isinstance(n, ast.ListComp) and any(isinstance(p_, ast.Assign) and p_.value is n for p_ in ast.walk(mk))]
    rr.floor('element-wise conversions of list fields in the facet builder', len(comps), 2, lm, mk)
    for n in comps:
        one = len(n.generators) == 1 and not n.generators[0].ifs
        rr.ob('the facet builder converts list fields element by element (same length)', one, lm, n, witness=U(n)[:80], key='facet-lists-elementwise')


@rule('C16.R12', "a client records through the provider IT built: the exporter that carries this client's allow-list hangs on the readers of the MeterProvider made in the constructor, and opentelemetry's "
                 "set_meter_provider() takes effect once per process - the module-level get_meter() answers with the FIRST provider ever set, so a second client that takes its meters from it has its metrics "
                 "exported under the first client's allow-list (a lock-down client's metric leaves through another client's exporter). Every meter the client keeps comes from <its provider>.get_meter(..)")
def r12(rr, repo):
    cm, ctor = repo.find(f'{CL}::OpenTelemetryClient.__init__')
    prov = [n for n in walk_scope(ctor) if isinstance(n, ast.Assign) and isinstance(n.value, ast.Call) and U(n.value.func).split('.')[-1] == 'MeterProvider']
    rr.floor('MeterProvider(..) constructions stored by the client', len(prov), 1, cm, ctor)
    names = {U(t) for n in prov for t in n.targets}
    # the readers of that provider include the one that wraps the lineage exporter
    exp = [n for n in walk_scope(ctor) if isinstance(n, ast.Assign) and isinstance(n.value, ast.Call) and U(n.value.func).endswith('OTelLineageExporter')]
    meters = [n for n in walk_scope(ctor) if isinstance(n, ast.Assign) and isinstance(n.value, ast.Call) and U(n.value.func).split('.')[-1] == 'get_meter' and any(U(t).startswith('self.') for t in n.targets)]
    rr.floor('meters the client keeps (self.<..> = ..get_meter(..))', len(meters), 2, cm, ctor)
    for n in meters:
        f = n.value.func
        own = isinstance(f, ast.Attribute) and U(f.value) in names
        rr.ob("the meter is taken from the client's own provider", own, cm, n, witness=f'{U(n.targets[0])} = {U(n.value)[:70]}; own provider: {sorted(names)}', key=f'meter-of-own-provider|{U(n.targets[0])}')
    rr.sites += len(meters) + len(exp)


@rule('C16.R13', "a run's exporter ends with the run: the metric readers of the telemetry client a run builds are threads of the process, and the emitter they hand their (allow-list filtered) facet to is "
                 "shared by every run in the process - left running, the reader of a finished run puts ITS metrics back into the emitter at its next tick, and the heartbeats of the following run carry "
                 "them although that run's own allow-list (none: lock-down) lets nothing through. The teardown of a run shuts the client's MeterProvider down")
def r13(rr, repo):
    FIL = 'openfilter/filter_runtime/filter.py'
    fm, fini = repo.find(f'{FIL}::Filter.fini')
    _, init = repo.find(f'{FIL}::Filter.init')
    made = [n for n in walk_scope(init) if isinstance(n, ast.Assign) and isinstance(n.value, ast.Call) and U(n.value.func).endswith('OpenTelemetryClient')]
    rr.floor('telemetry clients built per run (Filter.init)', len(made), 1, fm, init)
    holder = U(made[0].targets[0])                      # self.otel
    attr = holder.split('.', 1)[1]
    # the provider reaches a local through getattr(getattr(self, 'otel', None), 'provider', None) / self.otel.provider
    def is_provider_term(x):
        t = U(x).replace('"', "'")
        return t == f'{holder}.provider' or (t.startswith('getattr(') and f"'{attr}'" in t and "'provider'" in t)
    locals_ = {U(n.target) for n in ast.walk(fini) if isinstance(n, ast.NamedExpr) and is_provider_term(n.value)} | \
              {U(n.targets[0]) for n in walk_scope(fini) if isinstance(n, ast.Assign) and is_provider_term(n.value)}
    downs = [c for c in q.calls_in(fini) if isinstance(c.func, ast.Attribute) and c.func.attr == 'shutdown' and (is_provider_term(c.func.value) or U(c.func.value) in locals_)]
    rr.ob("fini() shuts down the MeterProvider of the run's telemetry client", bool(downs), fm, downs[0] if downs else fini, witness=U(downs[0])[:60] if downs else f'no <{holder}.provider>.shutdown() in fini()', key='provider-ends-with-the-run')
    for c in downs:
        g = [(t, pol) for t, pol in q.effective_guards(c, fini)]
        okg = all(('is not None' in t and pol) or ('is None' in t and not pol) for t, pol in g)
        rr.ob('the shutdown is conditional on nothing but the client having a provider', okg, fm, c, witness=str(g)[:140], key='provider-shutdown-unconditional')
    cm, cinit = repo.find(f'{CL}::OpenTelemetryClient.__init__')
    prov = [n for n in walk_scope(cinit) if isinstance(n, ast.Assign) and isinstance(n.value, ast.Call) and U(n.value.func).split('.')[-1] == 'MeterProvider' and any(U(t) == 'self.provider' for t in n.targets)]
    rr.ob('the client keeps its provider where the teardown finds it (self.provider)', bool(prov), cm, prov[0] if prov else cinit, key='provider-kept')


@rule('C16.R14', "the allow-list in force is the one configured when the client is made: read_allowlist() reads its file on every call. A document remembered per process (a module-level table keyed by "
                 "path, a cache decorator) keeps the FIRST content of the file - read at import already, for the OpenLineage settings in the same file - so a file tightened to lock-down before a later "
                 "run in the process still lets the formerly allowed metrics through")
def r14(rr, repo):
    mod, fn = repo.find(f'{CF}::read_allowlist')
    CACHES = ('cache', 'lru_cache', 'functools.cache', 'functools.lru_cache', 'cached')
    module_tables = {U(t) for st in mod.tree.body if isinstance(st, (ast.Assign, ast.AnnAssign)) for t in (st.targets if isinstance(st, ast.Assign) else [st.target])
                     if isinstance(getattr(st, 'value', None), (ast.Dict, ast.List, ast.Set)) or (isinstance(getattr(st, 'value', None), ast.Call) and U(st.value.func) in ('dict', 'list', 'set', 'defaultdict', 'OrderedDict'))}

    def memo_of(f):
        """why the result of `f` can be one that an earlier call computed, or None"""
        for d in f.decorator_list:
            if U(d.func if isinstance(d, ast.Call) else d).split('.')[-1] in CACHES:
                return f'@{U(d)}'
        for r in [n for n in walk_scope(f) if isinstance(n, ast.Return) and n.value is not None]:
            for x in ast.walk(r.value):
                if isinstance(x, ast.Subscript) and U(x.value) in module_tables:
                    return f'returns {U(x)[:50]} (module-level table {U(x.value)})'
                if isinstance(x, ast.Call) and isinstance(x.func, ast.Attribute) and x.func.attr in ('get', 'setdefault') and U(x.func.value) in module_tables:
                    return f'returns {U(x)[:50]} (module-level table {U(x.func.value)})'
        return None

    why = memo_of(fn)
    rr.ob('read_allowlist itself computes its answer on every call', why is None, mod, fn, witness=why or 'no cache decorator, nothing returned from a module-level table', key='allowlist-read-per-call')
    docs = [n for n in walk_scope(fn) if isinstance(n, ast.Assign) and any(isinstance(c, ast.Call) and isinstance(c.func, ast.Attribute) and c.func.attr == 'get' and c.args and q.const_str(c.args[0]) == 'safe_metrics' for c in ast.walk(n.value))]
    rr.floor("reads of 'safe_metrics' in read_allowlist", len(docs), 1, mod, fn)
    for g in docs:
        recv = [c.func.value for c in ast.walk(g.value) if isinstance(c, ast.Call) and isinstance(c.func, ast.Attribute) and c.func.attr == 'get' and c.args and q.const_str(c.args[0]) == 'safe_metrics'][0]
        src = [n for n in walk_scope(fn) if isinstance(n, ast.Assign) and U(n.targets[0]) == U(recv)]
        if not src:
            rr.unresolved("where the document read_allowlist evaluates comes from was not found", mod, g, witness=U(recv), key='allowlist-document-fresh')
            continue
        v = src[-1].value
        loads = [c for c in ast.walk(v) if isinstance(c, ast.Call) and U(c.func).endswith(('safe_load', 'load'))]
        calls = [c for c in ast.walk(v) if isinstance(c, ast.Call) and isinstance(c.func, ast.Name) and any(isinstance(f, ast.FunctionDef) and f.name == c.func.id for f in mod.tree.body)]
        if loads and any(isinstance(a, ast.With) and any(isinstance(i.context_expr, ast.Call) and U(i.context_expr.func) == 'open' for i in a.items) for a in ancestors_of(src[-1])):
            rr.ob('the document is parsed from the file opened in this call', True, mod, src[-1], witness=U(src[-1])[:90], key='allowlist-document-fresh')
        elif calls:
            callee = [f for f in mod.tree.body if isinstance(f, ast.FunctionDef) and f.name == calls[0].func.id][0]
            why = memo_of(callee)
            opens = any(isinstance(c, ast.Call) and U(c.func) == 'open' for c in ast.walk(callee))
            if why:
                rr.ob('the document is parsed from the file opened in this call', False, mod, src[-1], witness=f'{callee.name}(): {why}', key='allowlist-document-fresh')
            elif opens:
                rr.ob('the document is parsed from the file opened in this call', True, mod, src[-1], witness=f'{callee.name}() opens and parses the file', key='allowlist-document-fresh')
            else:
                rr.unresolved('where the document comes from was not decided', mod, src[-1], witness=U(src[-1])[:90], key='allowlist-document-fresh')
        else:
            rr.unresolved('where the document comes from was not decided', mod, src[-1], witness=U(src[-1])[:90], key='allowlist-document-fresh')
