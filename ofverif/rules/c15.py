"""C15 - passwords embedded in URIs never leave the filter in clear text: taint (E8), sanitising-walk totality, regex classes (E11)."""

from __future__ import annotations

import ast
import re

from . import rule
from ..model import Unresolved, walk_scope, parent, enclosing_function, enclosing_class, qualname, ancestors as ancestors_of
from ..paths import U
from ..taint import TaintEngine, SRC
from .. import q

F = 'openfilter/filter_runtime/filter.py'
UTL = 'openfilter/filter_runtime/utils.py'
RUN_METHODS = ('init', 'setup', 'process', 'process_frames', 'loop_once', 'shutdown', 'fini')
OUT_OF_SCOPE = {
    'openfilter/filter_runtime/zeromq.py': 'strings that reach it are tcp:// / ipc:// endpoints validated by Filter.init; a user:pw@ form is not a connectable ZeroMQ endpoint',
    'openfilter/filter_runtime/mq.py': 'same as zeromq.py',
}
DLC = 'openfilter/filter_runtime/dlcache.py'


def in_scope(relpath: str) -> bool:
    return relpath in (F, DLC, 'openfilter/filter_runtime/zeromq.py', 'openfilter/filter_runtime/mq.py', 'openfilter/cli/common.py') or relpath.startswith('openfilter/filter_runtime/filters/') or relpath == 'openfilter/observability/lineage.py'


def dlcache_entry(repo):
    """The download cache is fed with URI strings taken from the configuration (Filter.download_cached_files -> dlcache.files -> DLCache.ensure on a
    thread): -> (call in filter.py, DLCache.files, DLCache.ensure, DLCache.filename), Unresolved when that chain is no longer there."""
    fmod, dcf = repo.find(f'{F}::Filter.download_cached_files')
    calls = [c for c in q.calls_in(dcf) if U(c.func) == 'dlcache.files']
    dmod, files = repo.find(f'{DLC}::DLCache.files')
    _, ensure = repo.find(f'{DLC}::DLCache.ensure')
    _, filename = repo.find(f'{DLC}::DLCache.filename')
    if not calls:
        raise Unresolved(f'{F}: Filter.download_cached_files no longer hands the configuration URIs to dlcache.files(...)')
    if not any(isinstance(n, ast.Attribute) and U(n) == 'self.ensure' for n in ast.walk(files)) or not any(U(c.func) == 'self.filename' for c in q.calls_in(files)):
        raise Unresolved(f'{DLC}: DLCache.files no longer passes its URIs to self.ensure / self.filename')
    return calls[0], files, ensure, filename


def engine(repo) -> TaintEngine:
    e = getattr(repo, '_taint', None)
    if e is None:
        e = TaintEngine(repo, set())
        # entry into the download cache: the strings it is given are configuration URIs (dlcache_entry checks the chain that carries them there);
        # the local file name is that URI with `jfrog://` cut off, i.e. a value the masks can no longer match as it stands
        from ..taint import URI, NOSCHEME
        _, files, ensure, filename = dlcache_entry(repo)
        for fn, pname, lab in ((files, q.func_params(files)[1], {SRC, URI}), (ensure, q.func_params(ensure)[1], {SRC, URI}), (ensure, q.func_params(ensure)[2], {SRC, URI, NOSCHEME}),
                               (filename, q.func_params(filename)[1], {SRC, URI})):
            e.seed(e.by_node[id(fn)], pname, frozenset(lab))
        # the FilterConfig records the CLI's wiring function builds from the command line are configuration as well: their sources / outputs are the URIs the filters will be given
        cmod, pf = repo.find('openfilter/cli/common.py::parse_filters')
        e.source_records.add(e.by_node[id(pf)].key)
        # models.toml is configuration as well: the model locations it lists (jfrog://, https://, s3:// ...) are URIs the filter is given, and Filter.init puts them into the START facets
        fmod_, gmi = repo.find(f'{F}::FilterContext.get_model_info')
        e.source_calls.add('FilterContext.get_model_info')
        e.run()
        repo._taint = e
    return e


@rule('C15.R1', 'no unsanitised flow from a configuration URI to a log line, to frame metadata sent downstream, to lineage facets, or to the message of an exception the framework logs')
def r1(rr, repo):
    eng = engine(repo)
    rr.note(f'taint fixpoint reached after {eng.rounds} rounds over {len(eng.fns)} functions; URI fields: {sorted(eng.uri_fields)}; '
            f'{len(eng.declared_fields)} declared config fields; tainted helper attributes: {sorted(f"{k[0].split("::")[1]}.{k[1]}" for k, v in eng.attr.items() if v)}')
    seen = {}
    n_sinks = 0
    clean_sinks = 0
    for key, s in eng.summ.items():
        fi = eng.fns[key]
        if not in_scope(fi.mod.relpath):
            continue
        for (node, mod, kind, labels, text) in s.sinks:
            if not in_scope(mod.relpath):
                continue
            if SRC in labels:
                seen.setdefault((id(node), kind), (node, mod, kind, text, key))
    # raise messages that escape a method Filter.run invokes under `except Exception as exc: logger.error(exc)`
    for key, s in eng.summ.items():
        fi = eng.fns[key]
        if fi.cls is None or fi.node.name not in RUN_METHODS:
            continue
        ck = f'{fi.mod.relpath}::{qualname(fi.cls)}'
        if ck not in eng.filter_classes or not in_scope(fi.mod.relpath):
            continue
        for (node, mod, labels) in s.raises:
            if SRC in labels and in_scope(mod.relpath):
                seen.setdefault((id(node), 'raise'), (node, mod, 'logged-exception', U(node)[:160], key))
    # count all sinks examined (tainted or not) for the floor / positive instances
    for mod in repo.modules.values():
        if not in_scope(mod.relpath):
            continue
        for c in q.calls_in(mod.tree):
            f = c.func
            if isinstance(f, ast.Attribute) and f.attr in ('debug', 'info', 'warning', 'error', 'critical', 'exception') and U(f.value) in ('logger', 'logging'):
                n_sinks += 1
            elif isinstance(f, ast.Name) and f.id == 'Frame':
                n_sinks += 1
    for (nid, kind), (node, mod, k, text, via) in sorted(seen.items(), key=lambda kv: (kv[1][1].relpath, kv[1][0].lineno)):
        what = {'log': 'a configuration URI reaches a log call unsanitised', 'frame-meta': 'a configuration URI reaches frame metadata sent downstream unsanitised',
                'lineage': 'the configuration reaches lineage facets unsanitised', 'logged-exception': 'a configuration URI is formatted into an exception message that Filter.run logs'}[k]
        rr.violated(what, mod, getattr(node, 'call', node), witness=f'{k}: {text}', key=f'{k}|{re.sub(r"\s+", " ", text)[:180 if hasattr(node, "call") else 100]}')
    rr.floor('log / Frame sinks in scope', n_sinks, 60)
    # positive instances: places where the sanitizer does its job
    pos = 0
    for mod in repo.modules.values():
        if in_scope(mod.relpath):
            pos += sum(1 for c in q.calls_in(mod.tree) if isinstance(c.func, ast.Name) and c.func.id in ('hide_uri_users_and_pwds', 'hide_uri_pwds'))
    rr.floor('sanitizer applications in scope', pos, 4)
    if not seen:
        rr.holds('no tainted value reaches a sink in scope', key='none')
    rr.samples = [{'sink': f'{m.relpath}:{n.lineno}', 'kind': k, 'text': t[:100]} for (n, m, k, t, via) in list(seen.values())[:3]]


def dict_subclasses_in_configs(repo):
    """dict and every dict subclass of the package (configs may hold any of them), plus list and tuple"""
    out = []
    for key in repo.classes():
        if 'builtin:dict' in repo.mro_names(('repo', key)):
            out.append(key)
    return out


@rule('C15.R2', 'the sanitising walk is total: the recursive function that masks the configuration before it is logged recurses into list, tuple and every dict subclass a configuration can hold')
def r2(rr, repo):
    mod, ctor = repo.find(f'{F}::Filter.__init__')
    walkers = []   # (name, node, module, host function for class resolution)
    san = lambda node: any(isinstance(c, ast.Call) and isinstance(c.func, ast.Name) and c.func.id in ('hide_uri_users_and_pwds', 'hide_uri_pwds') for c in ast.walk(node))
    for n in ast.walk(ctor):
        if isinstance(n, ast.NamedExpr) and isinstance(n.value, ast.Lambda) and san(n.value):
            walkers.append((n.target.id, n.value, mod, ctor))
    for m2 in (mod, repo.module(UTL)):
        for n in m2.tree.body:
            if isinstance(n, ast.FunctionDef) and san(n) and any(isinstance(c, ast.Call) and isinstance(c.func, ast.Name) and c.func.id == n.name for c in ast.walk(n)):
                walkers.append((n.name, n, m2, n))
    rr.floor('sanitising walkers in filter.py', len(walkers), 1, mod, ctor)
    kinds = [('builtin', 'str'), ('builtin', 'list'), ('builtin', 'tuple'), ('builtin', 'dict')] + [('repo', k) for k in dict_subclasses_in_configs(repo)]
    for name, w, wmod, host in walkers:
        param = w.args.args[0].arg
        body = w.body if isinstance(w, ast.Lambda) else None
        if body is None:
            rets = [s_ for s_ in ast.walk(w) if isinstance(s_, ast.Return)]
            rebinds = [s_ for s_ in ast.walk(w) if isinstance(s_, ast.Name) and isinstance(s_.ctx, ast.Store) and s_.id == param]
            if len(rets) == 1 and rets[0] is w.body[-1] and rets[0].value is not None and not rebinds:
                body = rets[0].value
            else:
                rr.unresolved('walker written with statements: only the single conditional-expression form is evaluated', wmod, w, key=f'walker-form|{name}')
                continue
        # flatten the conditional chain: [(test, value)], final else
        chain = []
        cur = body
        while isinstance(cur, ast.IfExp):
            chain.append((cur.test, cur.body))
            cur = cur.orelse
        chain.append((None, cur))
        for kref in kinds:
            kname = kref[1].split('::')[-1]
            chosen = None
            for test, val in chain:
                if test is None:
                    chosen = val
                    break
                t, pol = q.strip_not(test)
                if not (isinstance(t, ast.Call) and isinstance(t.func, ast.Name) and t.func.id == 'isinstance' and U(t.args[0]) == param):
                    rr.unresolved('walker branch test is not isinstance(param, ...)', wmod, test, key=f'walker-test|{name}')
                    chosen = 'unknown'
                    break
                types = t.args[1].elts if isinstance(t.args[1], ast.Tuple) else [t.args[1]]
                is_inst = False
                for ty in types:
                    ref = repo.resolve_class(wmod, ty, scope=host)
                    sub = repo.is_subclass(kref, ref)
                    if sub:
                        is_inst = True
                if is_inst == pol:
                    chosen = val
                    break
            if chosen == 'unknown' or chosen is None:
                continue
            txt = U(chosen)
            if kname == 'str':
                ok = any(isinstance(c, ast.Call) and isinstance(c.func, ast.Name) and c.func.id in ('hide_uri_users_and_pwds', 'hide_uri_pwds') for c in ast.walk(chosen))
                rr.ob('a string leaf is passed through the sanitizer', ok, wmod, w, witness=txt[:100], key=f'walk|{name}|str')
            else:
                recurses = any(isinstance(c, ast.Call) and isinstance(c.func, ast.Name) and c.func.id == name for c in ast.walk(chosen))
                rr.ob(f'a {kname} inside the configuration is walked (the walker recurses into it) rather than returned as is', recurses, wmod, w,
                      witness=f'{kname} -> {txt[:80]}', key=f'walk|{name}|{kname}')
        # the log call uses the walker's result
        if host is ctor:
            logs = [c for c in q.calls_in(ctor) if isinstance(c.func, ast.Attribute) and c.func.attr == 'info' and any(isinstance(x, ast.NamedExpr) and x.value is w for x in ast.walk(c))]
            rr.ob('the start-up log line prints the walked (masked) configuration', bool(logs), mod, ctor, key='walk-used')


def _class_items(parsed):
    """[(negate, set of literal chars / category names)] for the items of a regex AST"""
    import re._parser as sp
    return parsed


@rule('C15.R3', 'the masks cover the documented alphabet: the password sub-pattern excludes nothing but "@", the user class only ":" and "@", the scheme is the RFC scheme class, and the replacement keeps only the scheme and the host part')
def r3(rr, repo):
    import re._parser as sp
    import re._constants as sc
    mod = repo.module(UTL)
    pats = {}
    for st in mod.tree.body:
        if isinstance(st, ast.Assign) and isinstance(st.value, ast.Call) and U(st.value.func) == 're.compile' and st.value.args and isinstance(st.value.args[0], ast.Constant) \
                and isinstance(st.targets[0], ast.Name) and 'uri' in st.targets[0].id and 'pwd' in st.targets[0].id:
            flags = re.VERBOSE if any('VERBOSE' in U(a) for a in st.value.args[1:]) or any('VERBOSE' in U(k.value) for k in st.value.keywords) else 0
            pats[st.targets[0].id] = (st.value.args[0].value, flags, st)
    rr.floor('credential-masking regexes in utils.py', len(pats), 2, mod, mod.tree)
    subs = {}
    for fn in mod.tree.body:
        if isinstance(fn, ast.FunctionDef) and fn.name in ('hide_uri_users_and_pwds', 'hide_uri_pwds'):
            for c in q.calls_in(fn):
                if isinstance(c.func, ast.Attribute) and c.func.attr == 'sub' and isinstance(c.func.value, ast.Name):
                    subs[fn.name] = (c.func.value.id, c.args[0].value if c.args and isinstance(c.args[0], ast.Constant) else None, c)
    # every occurrence in a text is masked: the helper substitutes ALL matches (pattern.sub without a count); a search()/match() and a splice deals with the first one only -
    # a refused configuration logged as given, an unsplit comma list or an exception text with two URLs holds more than one credential
    for fn in mod.tree.body:
        if isinstance(fn, ast.FunctionDef) and fn.name in ('hide_uri_users_and_pwds', 'hide_uri_pwds'):
            calls = [c for c in q.calls_in(fn) if isinstance(c.func, ast.Attribute) and isinstance(c.func.value, ast.Name) and c.func.value.id in pats]
            first_only = [c for c in calls if c.func.attr in ('search', 'match', 'fullmatch')] + \
                         [c for c in calls if c.func.attr == 'sub' and (len(c.args) >= 3 or any(k.arg == 'count' for k in c.keywords)) and not (len(c.args) >= 3 and isinstance(c.args[2], ast.Constant) and c.args[2].value == 0)]
            all_subs = [c for c in calls if c.func.attr in ('sub', 'subn') and c not in first_only]
            returns_sub = any(isinstance(r, ast.Return) and r.value in all_subs for r in ast.walk(fn))
            if first_only and not (returns_sub and len([r for r in ast.walk(fn) if isinstance(r, ast.Return)]) == 1):
                rr.ob(f'{fn.name} masks every credential in the text, not only the first', False, mod, first_only[0], witness=f'{U(first_only[0])[:70]} decides what is returned', key=f'masks-every-occurrence|{fn.name}')
            elif all_subs:
                rr.ob(f'{fn.name} masks every credential in the text, not only the first', True, mod, all_subs[0], witness=U(all_subs[0])[:70], key=f'masks-every-occurrence|{fn.name}')
    rr.floor('sanitizer functions', len(subs), 2, mod, mod.tree)
    for fname, (pname, repl, call) in subs.items():
        if pname not in pats:
            rr.unresolved(f'{fname} uses a pattern that is not a module-level literal', mod, call, key=f'pattern|{fname}')
            continue
        pattern, flags, st = pats[pname]
        try:
            parsed = sp.parse(pattern, flags)
        except Exception as exc:
            rr.unresolved(f'pattern does not parse: {exc}', mod, st, key=f'parse|{fname}')
            continue
        items = list(parsed)
        groups = [i for i, (op, av) in enumerate(items) if op is sc.SUBPATTERN]
        rr.ob(f'{fname}: the pattern has exactly two capture groups (kept head and kept tail, the mask goes in between)', len(groups) == 2, mod, st, key=f'groups|{fname}')
        if len(groups) != 2:
            continue
        # flatten into tokens tagged with the region they are in: 'g1', 'mask' (between the groups), 'g2'
        toks = []
        for i, (op, av) in enumerate(items):
            if i == groups[0]:
                toks += [(o, a, 'g1') for o, a in av[3]]
            elif i == groups[1]:
                toks += [(o, a, 'g2') for o, a in av[3]]
            elif groups[0] < i < groups[1]:
                toks.append((op, av, 'mask'))
            elif op is not sc.AT:
                toks.append((op, av, 'outside'))

        def neg_class(av):
            """-> set of excluded literal chars if the repeated item is a negated class of literals, else None"""
            lo, hi, sub = av
            sub = list(sub)
            if len(sub) == 1 and sub[0][0] is sc.NOT_LITERAL:
                return {chr(sub[0][1])}
            if len(sub) != 1 or sub[0][0] is not sc.IN:
                return None
            inner = list(sub[0][1])
            if not inner or inner[0][0] is not sc.NEGATE:
                return None
            chars = set()
            for op, v in inner[1:]:
                if op is sc.LITERAL:
                    chars.add(chr(v))
                else:
                    return None
            return chars
        # expected token sequence: IN(alpha) REPEAT(IN scheme chars) ':' '/' '/' REPEAT(user) ':' REPEAT(password) '@' REPEAT(host)
        kinds = [('rep' if o in (sc.MAX_REPEAT, sc.MIN_REPEAT) else 'lit:' + chr(a) if o is sc.LITERAL else 'in' if o is sc.IN else str(o)) for o, a, r in toks]
        want = ['in', 'rep', 'lit::', 'lit:/', 'lit:/', 'rep', 'lit::', 'rep', 'lit:@', 'rep']
        if kinds not in (want, want[:-1]):     # with or without a host part after the '@'
            rr.unresolved(f'{fname}: pattern structure not recognised: {kinds}', mod, st, key=f'structure|{fname}')
            continue
        scheme_rep, user_rep, pw_rep = toks[1], toks[5], toks[7]
        pw_excl = neg_class(pw_rep[1])
        rr.ob(f'{fname}: the password sub-pattern is a negated class that excludes nothing but "@" (so ! : / ? # inside a password are consumed)', pw_excl == {'@'}, mod, st,
              witness=f'excluded: {sorted(pw_excl) if pw_excl is not None else "not a negated literal class"}', key=f'pwd-class|{fname}')
        rr.ob(f'{fname}: the password lies in the masked region (between the two kept groups)', pw_rep[2] == 'mask', mod, st, key=f'pwd-masked|{fname}')
        u_excl = neg_class(user_rep[1])
        rr.ob(f'{fname}: the user sub-pattern excludes only ":" and "@"', u_excl == {':', '@'}, mod, st, witness=str(sorted(u_excl) if u_excl is not None else None), key=f'user-class|{fname}')
        rr.ob(f'{fname}: the user part may be empty ("scheme://:password@host" is valid userinfo and still carries a password)', user_rep[1][0] == 0, mod, st,
              witness=f'user repeat minimum {user_rep[1][0]}', key=f'user-may-be-empty|{fname}')
        host_rep = toks[9] if len(toks) > 9 else None
        rr.ob(f'{fname}: the host after the "@" may be empty ("scheme://user:password@/path" is valid and still carries the credential)', host_rep is None or host_rep[1][0] == 0, mod, st,
              witness='the match ends at the "@"' if host_rep is None else f'host repeat minimum {host_rep[1][0]}', key=f'host-may-be-empty|{fname}')
        # what the match consumes after the '@' is not scanned again: if it can run across a list separator it swallows the scheme of the NEXT URI ('rtsp://a:b@cam1,rtsp://c:d@cam2': the host
        # class eats 'cam1,rtsp:' and '//c:d@cam2' no longer matches) - the match ends at the '@', or its tail stops at ',' ';' '!' like it stops at blanks
        if host_rep is None:
            rr.ob(f'{fname}: a match cannot swallow the scheme of the next URI of a list', True, mod, st, witness='the match ends at the "@"', key=f'tail-stops-at-separators|{fname}')
        else:
            sub = list(host_rep[1][2])
            excl, cats = set(), set()
            ok = len(sub) == 1 and sub[0][0] is sc.IN and list(sub[0][1])[0][0] is sc.NEGATE
            if ok:
                for op, v in list(sub[0][1])[1:]:
                    if op is sc.LITERAL:
                        excl.add(chr(v))
                    elif op is sc.CATEGORY:
                        cats.add(v)
            stops = ok and {',', ';', '!'} <= excl and sc.CATEGORY_SPACE in cats
            rr.ob(f'{fname}: a match cannot swallow the scheme of the next URI of a list', stops, mod, st,
                  witness=f'the part kept after the "@" excludes {sorted(excl)} (+ blanks: {sc.CATEGORY_SPACE in cats}); it has to stop at , ; ! too', key=f'tail-stops-at-separators|{fname}')
        rr.ob(f'{fname}: the password may be empty or of any length', pw_rep[1][0] == 0 and pw_rep[1][1] >= 65535, mod, st, witness=f'password repeat {pw_rep[1][0]}..{pw_rep[1][1]}', key=f'pwd-any-length|{fname}')
        if 'users' in fname:
            rr.ob(f'{fname}: the user name lies in the masked region too', user_rep[2] == 'mask', mod, st, key=f'user-masked|{fname}')
        ok_scheme = toks[0][2] == 'g1' and all(t[2] == 'g1' for t in toks[:5])
        if ok_scheme:
            sub = list(scheme_rep[1][2])
            ok_scheme = len(sub) == 1 and sub[0][0] is sc.IN
            if ok_scheme:
                cls = list(sub[0][1])
                lits_ = {chr(v) for op, v in cls if op is sc.LITERAL}
                ranges = {(chr(a), chr(b)) for op, v in cls if op is sc.RANGE for a, b in [v]}
                first = {(chr(a), chr(b)) for op, v in list(toks[0][1]) if op is sc.RANGE for a, b in [v]}
                ok_scheme = {'+', '-', '.'} <= lits_ and {('a', 'z'), ('A', 'Z'), ('0', '9')} <= ranges and {('a', 'z'), ('A', 'Z')} <= first
        rr.ob(f'{fname}: the scheme is the RFC 3986 scheme class followed by :// and is kept', ok_scheme, mod, st, key=f'scheme|{fname}')
        rr.ob(f'{fname}: the kept tail starts at the "@"', toks[8][2] == 'g2', mod, st, key=f'tail|{fname}')
        # replacement keeps groups 1 and 2 only, mask in between
        rr.ob(f'{fname}: the replacement is <group 1><mask><group 2>', repl is not None and re.fullmatch(r'\\g<1>\*+\\g<2>', repl) is not None, mod, call, witness=str(repl), key=f'repl|{fname}')


@rule('C15.R4', "cutting a source / output text at its delimiters never cuts inside the credential: a piece split off at '!', ';' or ',' that still belongs to the URI (the password may contain the delimiter) "
                "is re-attached before the address is used, otherwise the part before the delimiter ('scheme://user:pass-prefix', no '@' left for the mask to anchor on) and the rest ('...@host') travel on unmasked")
def r4(rr, repo):
    fmod = repo.module(F)
    umod = repo.module(UTL)
    table = [(fmod, repo.find(f'{F}::Filter.parse_options')[1], '!'), (fmod, repo.find(f'{F}::Filter.parse_topics')[1], ';'), (umod, repo.find(f'{UTL}::split_commas_maybe')[1], ',')]
    for mod, fn, delim in table:
        params = q.func_params(fn)
        splits = [c for c in q.calls_in(fn) if isinstance(c.func, ast.Attribute) and c.func.attr == 'split' and c.args and q.const_str(c.args[0]) and c.args[0].value == delim and U(c.func.value) in params]
        if not splits:
            rr.unresolved(f'{fn.name}: no split of the parameter at {delim!r} found', mod, fn, key=f'splitter|{fn.name}')
            continue
        # a re-attachment step: a loop over the split-off pieces that joins some of them back onto the first piece with the same delimiter
        joins = [c for c in q.calls_in(fn) if isinstance(c.func, ast.Attribute) and c.func.attr == 'join' and q.const_str(c.func.value) and c.func.value.value == delim and
                 any(isinstance(a, (ast.For, ast.While)) for a in ancestors_of(c))]
        if not joins:
            rr.violated(f"{fn.name} cuts its argument at every {delim!r} and never puts a piece back: a credential whose password contains {delim!r} is cut in two, neither half matches the masks",
                        mod, splits[0], witness=U(splits[0])[:100], key=f'split-cuts-credential|{fn.name}|{delim}')
            continue
        j = joins[0]
        loop = [a for a in ancestors_of(j) if isinstance(a, ast.For)]
        loop = loop[0] if loop else None
        it = U(loop.iter) if loop is not None else ''
        from_end = 'reversed(' in it
        # which pieces go back: everything up to and including the piece found (slice [:pos] with pos counted from the front)
        sl = [s_ for s_ in ast.walk(j) if isinstance(s_, ast.Subscript) and isinstance(s_.slice, ast.Slice) and s_.slice.lower is None and s_.slice.upper is not None]
        guard = [U(t) for t, pol in q.guards_of(j, stop=loop)] if loop is not None else []
        tested = any('.match(' in g for g in guard) and any((not pol) and '.match(' in U(t) for t, pol in q.guards_of(j, stop=loop))
        if loop is None or not sl or not tested:
            rr.unresolved(f'{fn.name}: the re-attachment step has an unrecognised shape', mod, j, witness=U(j)[:120], key=f'split-cuts-credential|{fn.name}|{delim}')
        elif from_end:
            upper = U(sl[0].slice.upper)
            ok = 'len(' in upper and '-' in upper or any(isinstance(n, ast.NamedExpr) and 'len(' in U(n.value) and '-' in U(n.value) for n in ast.walk(sl[0].slice.upper))
            rr.ob(f"{fn.name}: everything up to the LAST piece that cannot be an option is put back onto the address (scan from the end), so a password may contain any number of {delim!r}", ok, mod, j,
                  witness=f'for ... in {it}: {U(j)[:100]}', key=f'split-cuts-credential|{fn.name}|{delim}')
            # what decides is only the SHAPE of a piece ("looks like name=..."): a piece of the password that happens to look like an option ('pw!region=eu@host/x') is split off
            # with the '@host' tail, and what is left ('scheme://user:pw') has no '@' for any mask to anchor on. Telling the two apart needs the '@' that ends the userinfo.
            looks_at_userinfo = any("'@'" in g or '"@"' in g for g in guard) or any(isinstance(c_, ast.Compare) and any(q.const_str(x) == '@' for x in ast.walk(c_)) for c_ in ast.walk(loop))
            rr.ob(f"{fn.name}: a piece is taken for an option only if the userinfo has ended before it (the test looks for the '@', not only at the shape 'name=')", looks_at_userinfo, mod, j,
                  witness='the only test is ' + '; '.join(guard)[:120], key=f'split-cuts-credential|{fn.name}|option-like-piece')
        else:
            rr.violated(f"{fn.name}: the scan for pieces that belong to the address runs from the front and stops at the FIRST piece that cannot be an option: a password with two or more {delim!r} is still cut inside",
                        mod, j, witness=f'for ... in {it}', key=f'split-cuts-credential|{fn.name}|{delim}')


@rule('C15.R5', "what normalisation leaves in the configuration can still be masked: no normalize_config stores a credential-bearing URI back into the configuration with its scheme cut off (or clipped at the "
                "tail) - the start-up line and the lineage START facets mask the normalised configuration with patterns anchored on `scheme://`, a value stored without it goes out as it is")
def r5(rr, repo):
    eng = engine(repo)
    ncs = [fi for fi in eng.fns.values() if fi.node.name == 'normalize_config' and fi.cls is not None and in_scope(fi.mod.relpath)]
    rr.floor('normalize_config methods analysed', len(ncs), 8)
    stores = sum(1 for fi in ncs for n in ast.walk(fi.node) if isinstance(n, (ast.Assign, ast.AugAssign)) for t in (n.targets if isinstance(n, ast.Assign) else [n.target])
                 if isinstance(t, (ast.Attribute, ast.Subscript)))
    rr.floor('stores into a configuration object inside normalize_config methods', stores, 30)
    for (fkey, tgt_text), (node, mod) in sorted(eng.cut_config_stores.items(), key=lambda kv: (kv[1][1].relpath, kv[1][0].lineno)):
        rr.violated('normalize_config stores a configuration URI without its scheme: the masks of the start-up line and of the lineage facets cannot match it', mod, node,
                    witness=f'{tgt_text} = <value cut from a configuration URI>', key=f'cut-store|{tgt_text}')
    if not eng.cut_config_stores:
        rr.holds('no normalize_config stores a cut configuration URI', key='none')


@rule('C15.R6', "what a library says about the address or URI it was given is masked before it is logged: Filter.run and the download cache log the exceptions they catch (ZMQError \"... addr='tcp://user:pw@host:5551'\", "
                "requests' InvalidURL, ...) - the text of a caught exception object is passed through the mask, never logged raw")
def r6(rr, repo):
    sites = []
    for rel, fname in ((F, 'Filter.run'), (DLC, 'DLCache.ensure')):
        mod, fn = repo.find(f'{rel}::{fname}')
        for h in [h for t in ast.walk(fn) if isinstance(t, ast.Try) for h in t.handlers if h.name]:
            for c in q.calls_in(h):
                f = c.func
                is_log = (isinstance(f, ast.Attribute) and f.attr in ('debug', 'info', 'warning', 'error', 'critical', 'exception') and U(f.value).endswith(('logger', 'logging'))) or \
                    (isinstance(f, ast.IfExp) and all(isinstance(a, ast.Attribute) and U(a.value).endswith('logger') for a in (f.body, f.orelse)))
                if not is_log or not c.args:
                    continue
                uses = [x for x in ast.walk(c.args[0]) if isinstance(x, ast.Name) and x.id == h.name]
                if not uses:
                    continue
                sites.append(c)
                masked = isinstance(c.args[0], ast.Call) and U(c.args[0].func) in ('hide_uri_users_and_pwds', 'hide_uri_pwds') or \
                    all(any(isinstance(a, ast.Call) and U(a.func) in ('hide_uri_users_and_pwds', 'hide_uri_pwds') for a in ancestors_of(u) if a is not c) for u in uses)
                rr.ob(f'{fname}: a caught exception is logged through the mask', masked, mod, c, witness=U(c)[:100], key=f'exc-logged-masked|{fname}|{U(c)[:50]}')
    rr.floor('log calls of caught exception objects in Filter.run / DLCache.ensure', len(sites), 3)
    # ... and where the library words its error with a PIECE of the address (pyzmq: 'No such file or directory for ipc path "user:pw@/run/pipes/out"' - no scheme left for the mask to anchor
    # on), the error is replaced where it arises: sockets are bound / connected through a wrapper that re-raises with the masked address and none of the library's own text
    zmod = repo.module('openfilter/filter_runtime/zeromq.py')
    direct = [c for c in q.calls_in(zmod.tree) if isinstance(c.func, ast.Attribute) and c.func.attr in ('bind', 'connect') and U(c.func.value).split('.')[-1] in ('pub', 'pull', 'push', 'sub', 'sock', 'socket')]
    wrapped = [c for c in q.calls_in(zmod.tree) if c.args and isinstance(c.args[0], ast.Attribute) and c.args[0].attr in ('bind', 'connect') and isinstance(c.func, ast.Name)]
    rr.floor('socket bind / connect sites in zeromq.py', len(direct) + len(wrapped), 4, zmod, zmod.tree)
    for c in direct:
        rr.ob('a socket is bound / connected through the wrapper that masks what the library says about the address', False, zmod, c, witness=U(c)[:80], key=f'attach-errors-masked|{U(c.func.value).split(".")[-1]}.{c.func.attr}')
    helpers = {U(c.func) for c in wrapped}
    for hn in sorted(helpers):
        try:
            _, hf = repo.find(f'openfilter/filter_runtime/zeromq.py::{hn}')
        except Unresolved:
            rr.unresolved(f'the wrapper {hn} the sockets are attached through was not found', zmod, wrapped[0], key='attach-wrapper')
            continue
        hs = [h for t in ast.walk(hf) if isinstance(t, ast.Try) for h in t.handlers if h.type is not None and 'ZMQError' in U(h.type) or (isinstance(t, ast.Try) and False)]
        raises = [r for h in hs for r in ast.walk(h) if isinstance(r, ast.Raise) and r.exc is not None]
        ok = bool(raises) and all(any(isinstance(x, ast.Call) and U(x.func) in ('hide_uri_users_and_pwds', 'hide_uri_pwds') for x in ast.walk(r.exc)) and
                                   not any((isinstance(x, ast.Name) and x.id == h.name and not (isinstance(parent(x), ast.Attribute) and parent(x).attr == 'errno')) for h in hs for x in ast.walk(r.exc)) for r in raises)
        rr.ob(f'{hn}: a failed bind / connect is re-raised with the masked address, without the library\'s wording', ok, zmod, hf,
              witness=U(raises[0])[:140] if raises else 'no handler for zmq.ZMQError that raises', key='attach-wrapper-masks')
    for c in wrapped:
        rr.ob('a socket is bound / connected through the wrapper that masks what the library says about the address', True, zmod, c, witness=U(c)[:80], key=f'attach-errors-masked|{U(c.args[0].value).split(".")[-1]}.{c.args[0].attr}')


@rule('C15.R7', "a library that is handed the URI does not print it either: vidgear's WriteGear() and its helper module (which tests the output text as if it were a directory and warns with that text on a logger of "
                "its own) are quietened around the construction of the writer - both loggers are raised above WARNING before WriteGear(output=...) is called and restored after it")
def r7(rr, repo):
    VO = 'openfilter/filter_runtime/filters/video_out.py'
    mod, init = repo.find(f'{VO}::VideoWriter.__init__')
    _, nw = repo.find(f'{VO}::VideoWriter.new_writer')
    quiet = [n for n in walk_scope(init) if isinstance(n, ast.Assign) and any(U(t) == 'self.stfu' for t in n.targets) and isinstance(n.value, ast.Lambda)
             and not any(isinstance(a, ast.ExceptHandler) for a in ancestors_of(n))]      # the fallback for "vidgear's modules cannot be imported" has nothing to quieten
    rr.floor('definitions of the quietening callback', len(quiet), 1, mod, init)
    for n in quiet:
        sets = [c for c in ast.walk(n.value) if isinstance(c, ast.Call) and isinstance(c.func, ast.Attribute) and c.func.attr == 'setLevel' and c.args]
        lv = {U(c.func.value): U(c.args[0]).split('.')[-1] for c in sets}
        for lg in ('writegear.logger', 'helper.logger'):
            rr.ob(f'{lg} is raised to ERROR or above while the writer is constructed', lv.get(lg) in ('ERROR', 'CRITICAL', 'FATAL'), mod, n, witness=f'levels set by stfu: {lv}', key=f'quiet|{lg}')
    makes = [c for c in q.calls_in(nw) if U(c.func).endswith('WriteGear')]
    rr.floor('constructions of the vidgear writer', len(makes), 1, mod, nw)
    for c in makes:
        st = q.enclosing_stmt(c)
        from .zmq import stmt_list_containing
        _, lst, idx = stmt_list_containing(st)
        before = idx > 0 and U(lst[idx - 1]).strip() == 'self.stfu()'
        after = idx + 1 < len(lst) and U(lst[idx + 1]).strip() == 'self.unstfu()'
        rr.ob('WriteGear(...) is constructed between stfu() and unstfu()', before and after, mod, c, witness=f'before: {U(lst[idx - 1])[:40] if idx else None}; after: {U(lst[idx + 1])[:40] if idx + 1 < len(lst) else None}', key='writer-constructed-quiet')


@rule('C15.R8', "a piece of an address that is turned into a number can not carry the credential: int() quotes its argument in the ValueError it raises ('invalid literal for int() with base 10: "
                "'pw@host''), Filter.run logs that text, and the mask can not anchor without the scheme. In the ZeroMQ layer every int() of a piece cut out of an address takes a piece that the "
                "address pattern matched with digits only")
def r8(rr, repo):
    import re._parser as sp, re._constants as sc
    zm = repo.module('openfilter/filter_runtime/zeromq.py')
    pats = {}
    for st in zm.tree.body:
        if isinstance(st, ast.Assign) and isinstance(st.value, ast.Call) and U(st.value.func) == 're.compile' and st.value.args and q.const_str(st.value.args[0]) is not None:
            pats[U(st.targets[0])] = (st, st.value.args[0].value)

    def digits_only(items):
        for op, av in items:
            if op is sc.IN:
                if not all((o is sc.CATEGORY and a is sc.CATEGORY_DIGIT) or (o is sc.RANGE and chr(a[0]).isdigit() and chr(a[1]).isdigit()) or (o is sc.LITERAL and chr(a).isdigit()) for o, a in av):
                    return False
            elif op in (sc.MAX_REPEAT, sc.MIN_REPEAT):
                if not digits_only(av[2]):
                    return False
            elif op is sc.LITERAL:
                if not chr(av).isdigit():
                    return False
            elif op is sc.SUBPATTERN:
                if not digits_only(av[3]):
                    return False
            else:
                return False
        return True

    def groups_of(parsed, acc):
        for op, av in parsed:
            if op is sc.SUBPATTERN:
                if av[0] is not None:
                    acc[av[0]] = av[3]
                groups_of(av[3], acc)
            elif op in (sc.MAX_REPEAT, sc.MIN_REPEAT):
                groups_of(av[2], acc)
            elif op is sc.BRANCH:
                for b in av[1]:
                    groups_of(b, acc)
        return acc

    n = 0
    for fn in [f for f in ast.walk(zm.tree) if isinstance(f, ast.FunctionDef)]:
        unpacks = [a for a in walk_scope(fn) if isinstance(a, ast.Assign) and isinstance(a.targets[0], ast.Tuple) and isinstance(a.value, ast.Call) and isinstance(a.value.func, ast.Attribute)
                   and a.value.func.attr == 'groups' and isinstance(a.value.func.value, ast.Call) and isinstance(a.value.func.value.func, ast.Attribute) and U(a.value.func.value.func.value) in pats]
        for a in unpacks:
            pname = U(a.value.func.value.func.value)
            groups = groups_of(sp.parse(pats[pname][1]), {})
            names = [U(t) for t in a.targets[0].elts]
            for c in [c for c in q.calls_in(fn, into_functions=False) if U(c.func) == 'int' and c.args and U(c.args[0]) in names and c.lineno >= a.lineno]:
                n += 1
                gi = names.index(U(c.args[0])) + 1
                ok = gi in groups and digits_only(groups[gi])
                rr.ob('the piece of the address handed to int() was matched with digits only', ok, zm, c, witness=f'{U(c)} <- group {gi} of {pname} = {pats[pname][1]!r}', key=f'int-of-address-piece-is-digits|{fn.name}|{U(c.args[0])}')
    rr.floor('int() conversions of address pieces in the ZeroMQ layer', n, 2, zm, zm.tree)
