"""Checker self-validation (thorough tier): both-ways testing of the rules on variants of the CURRENT tree.

  firing   - each seeded mutant (a textual edit of the current source that must still compile) is analysed in
             memory (Repo overlay; nothing is written, nothing is executed) and one of the rules named for it must
             report VIOLATED;
  silence  - behaviour-preserving rewrites of the current source (ast.unparse round trip of every module; a
             debug-noise variant with an extra guarded log line at the start of every function and before every
             return; alpha-renaming of locals; every two-armed `if` with its arms swapped under the negated test;
             `x += e` spelled `x = x + e`) must leave every rule's verdict unchanged.

A mutant whose anchor text is not found on the current tree is recorded as skipped. A mutant that applies but is not
reported, or a rewrite that changes a verdict, makes the check exit 2 (the checker is broken) - unless the property
itself is violated on the current tree, which is reported first (exit 1).
"""

from __future__ import annotations

import ast
import os
import re
import time
from concurrent.futures import ProcessPoolExecutor

from .model import Repo, Unresolved
from .report import Check, load_known, VIOLATED, HOLDS, UNRESOLVED

_JOBS = int(os.environ.get('OFVERIF_JOBS', '16'))


def analyse(pid: str, repo_root: str, overlay: dict | None) -> dict:
    """Run the property's rules on (repo_root + overlay); return {'rules': {rid: status}, 'violated': [keys], 'errors': [...]}"""
    from .rules import load_all
    reg = load_all()
    chk = Check(pid, 'quick', repo_root, quiet=True, overlay=overlay)
    try:
        chk.load()
    except Unresolved as exc:
        return {'rules': {}, 'violated': [], 'violated_rules': [], 'errors': [str(exc)], 'unresolved_rules': ['<load>']}
    for rid, text, fn in reg.get(pid, []):
        chk.run_rule(rid, text, fn)
    known = {k['key'] for k in load_known() if k.get('property') == pid and k.get('status') == 'known'}
    viol = [o for rr in chk.rules for o in rr.obligations if o.status == VIOLATED and o.key not in known]
    return {
        'rules': {rr.rid: rr.status for rr in chk.rules},
        'violated': [o.key for o in viol],
        'violated_rules': sorted({o.rule.rid for o in viol}),
        'violated_detail': [f'{o.rule.rid} {o.file}:{o.line} {o.func}: {o.what}' for o in viol][:6],
        'unresolved_rules': sorted({rr.rid for rr in chk.rules if rr.status == UNRESOLVED}),
        'errors': [rr.error.splitlines()[0] for rr in chk.rules if rr.error] +
                  [f'{o.rule.rid}: {o.what}' for rr in chk.rules for o in rr.obligations if o.status == UNRESOLVED][:6],
    }


# ------------------------------------------------------------------------------------------------------- mutants

def apply_mutant(repo_root: str, m: dict) -> dict | None:
    """-> overlay or None when the operator finds no (unique) target on the current tree."""
    path = os.path.join(repo_root, m['file'])
    if not os.path.exists(path):
        return None
    src = open(path, encoding='utf-8').read()
    if m.get('regex'):
        new, n = re.subn(m['old'], m['new'], src, count=0, flags=re.S)
        if n != 1:
            return None
    else:
        if src.count(m['old']) != 1:
            return None
        new = src.replace(m['old'], m['new'])
    try:
        compile(new, m['file'], 'exec', dont_inherit=True)
    except SyntaxError:
        return None
    return {m['file']: new}


def _run_mutant(args):
    pid, repo_root, m = args
    ov = apply_mutant(repo_root, m)
    if ov is None:
        return m['name'], 'skipped', [], []
    res = analyse(pid, repo_root, ov)
    hit = [r for r in res['violated_rules'] if any(r == e or r.startswith(e + '.') for e in m['expect'])]
    if hit:
        return m['name'], 'killed', res['violated_rules'], res['violated_detail']
    return m['name'], 'missed', res['violated_rules'] + ['UNRESOLVED:' + u for u in res['unresolved_rules']], res['errors']


# ------------------------------------------------------------------------------------------------------ rewrites

def rewrite_unparse(src: str) -> str:
    return ast.unparse(ast.parse(src))


class _Noise(ast.NodeTransformer):
    def _noise(self):
        return ast.parse("if OFVERIF_DEBUG_NOISE:\n    logger.debug('ofverif noise')").body[0]

    def _process(self, body):
        out = []
        for st in body:
            if isinstance(st, ast.Return):
                out.append(self._noise())
            out.append(st)
        return out

    def generic_visit(self, node):
        super().generic_visit(node)
        for f in ('body', 'orelse', 'finalbody'):
            lst = getattr(node, f, None)
            if isinstance(lst, list) and lst and isinstance(lst[0], ast.stmt):
                setattr(node, f, self._process(lst))
        return node

    def visit_FunctionDef(self, node):
        self.generic_visit(node)
        i = 1 if node.body and isinstance(node.body[0], ast.Expr) and isinstance(node.body[0].value, ast.Constant) else 0
        # keep `nonlocal`/`global` declarations first
        while i < len(node.body) and isinstance(node.body[i], (ast.Nonlocal, ast.Global)):
            i += 1
        node.body.insert(i, self._noise())
        return node


def rewrite_noise(src: str) -> str:
    tree = _Noise().visit(ast.parse(src))
    ast.fix_missing_locations(tree)
    return ast.unparse(tree)


def rewrite_rename(src: str) -> str:
    """Alpha-rename the locals of every outermost function (closures included): name -> name_r."""
    tree = ast.parse(src)

    def outermost(node, inside=False):
        for ch in ast.iter_child_nodes(node):
            if isinstance(ch, (ast.FunctionDef, ast.AsyncFunctionDef)) and not inside:
                yield ch
            elif isinstance(ch, ast.ClassDef) or not isinstance(ch, (ast.FunctionDef, ast.AsyncFunctionDef, ast.Lambda)):
                yield from outermost(ch, inside)

    for fn in outermost(tree):
        params, stores, globs = set(), set(), set()
        for n in ast.walk(fn):
            if isinstance(n, ast.arg):
                params.add(n.arg)
            elif isinstance(n, ast.Name) and isinstance(n.ctx, (ast.Store, ast.Del)):
                stores.add(n.id)
            elif isinstance(n, ast.Global):
                globs.update(n.names)
            elif isinstance(n, ast.ExceptHandler) and n.name:
                params.add(n.name)   # leave handler names alone
            elif isinstance(n, (ast.FunctionDef, ast.AsyncFunctionDef, ast.ClassDef)) and n is not fn:
                params.add(n.name)
        # names bound inside nested class bodies are class attributes, not locals
        for n in ast.walk(fn):
            if isinstance(n, ast.ClassDef):
                for m in ast.walk(n):
                    if isinstance(m, ast.Name) and isinstance(m.ctx, ast.Store):
                        params.add(m.id)
        ren = {x for x in stores if x not in params and x not in globs and not x.startswith('__') and x != '_'}
        for n in ast.walk(fn):
            if isinstance(n, ast.Name) and n.id in ren:
                n.id = n.id + '_r'
            elif isinstance(n, ast.Nonlocal):
                n.names = [x + '_r' if x in ren else x for x in n.names]
    return ast.unparse(tree)


class _FlipIf(ast.NodeTransformer):
    """`if c: A else: B`  ->  `if not c: B else: A`  (elif chains are left alone)"""
    def visit_If(self, node):
        self.generic_visit(node)
        if node.orelse and not (len(node.orelse) == 1 and isinstance(node.orelse[0], ast.If)):
            t = node.test
            node.test = t.operand if isinstance(t, ast.UnaryOp) and isinstance(t.op, ast.Not) else ast.UnaryOp(op=ast.Not(), operand=t)
            node.body, node.orelse = node.orelse, node.body
        return node


def rewrite_flipif(src: str) -> str:
    tree = _FlipIf().visit(ast.parse(src))
    ast.fix_missing_locations(tree)
    return ast.unparse(tree)


class _Aug(ast.NodeTransformer):
    """`x += e`  ->  `x = x + e`  for plain names"""
    def visit_AugAssign(self, node):
        self.generic_visit(node)
        if isinstance(node.target, ast.Name):
            return ast.Assign(targets=[ast.Name(id=node.target.id, ctx=ast.Store())],
                              value=ast.BinOp(left=ast.Name(id=node.target.id, ctx=ast.Load()), op=node.op, right=node.value))
        return node


def rewrite_aug(src: str) -> str:
    tree = _Aug().visit(ast.parse(src))
    ast.fix_missing_locations(tree)
    return ast.unparse(tree)


REWRITES = {'unparse': rewrite_unparse, 'noise': rewrite_noise, 'rename': rewrite_rename, 'flipif': rewrite_flipif, 'aug': rewrite_aug}
GATING = set(REWRITES)   # pure alpha-renaming is undone by ofverif.vocab; no verdict may change under any of them


def _run_rewrite(args):
    pid, repo_root, name, base = args
    fn = REWRITES[name]
    repo = Repo(repo_root)
    overlay = {}
    for rel, mod in repo.modules.items():
        try:
            new = fn(mod.source)
            compile(new, rel, 'exec', dont_inherit=True)
            overlay[rel] = new
        except Exception as exc:   # a rewrite that does not compile is not a valid rewrite of that file: leave it
            pass
    res = analyse(pid, repo_root, overlay)
    diffs = {r: (base.get(r), s) for r, s in res['rules'].items() if base.get(r) != s}
    return name, diffs, res['errors'], res.get('violated_detail', [])


# -------------------------------------------------------------------------------------------------------- driver

def self_validate(pid: str, repo_root: str, chk: Check) -> dict:
    from .mutants import MUTANTS
    t0 = time.time()
    base = {rr.rid: rr.status for rr in chk.rules}
    mutants = [m for m in MUTANTS if pid in m['props']]
    jobs = [(pid, repo_root, m) for m in mutants]
    rjobs = [(pid, repo_root, name, base) for name in REWRITES]
    out = {'mutants_total': len(mutants), 'killed': [], 'missed': [], 'skipped': [], 'rewrites': {}, 'broken': []}
    with ProcessPoolExecutor(max_workers=_JOBS) as ex:
        mres = list(ex.map(_run_mutant, jobs))
        rres = list(ex.map(_run_rewrite, rjobs))
    for name, status, rules, detail in mres:
        if status == 'killed':
            out['killed'].append({'mutant': name, 'reported_by': rules})
        elif status == 'skipped':
            out['skipped'].append(name)
        else:
            out['missed'].append({'mutant': name, 'reported': rules, 'detail': detail})
            out['broken'].append(f'mutant {name!r} applied to the current tree but none of its expected rules fired (reported: {rules})')
    for name, diffs, errors, vdetail in rres:
        out['rewrites'][name] = {'verdict_changes': {k: list(v) for k, v in diffs.items()}, 'errors': errors[:4], 'violations': vdetail[:4]}
        for rid, (old, new) in diffs.items():
            if name not in GATING and new != VIOLATED:
                continue     # alpha-renaming may take a rule out of its vocabulary (UNRESOLVED, exit 2) but must never produce a violation
            out['broken'].append(f'behaviour-preserving rewrite {name!r} changed the verdict of {rid}: {old} -> {new} ({(vdetail or errors or [""])[0]})')
    out['wall_s'] = round(time.time() - t0, 2)
    chk.out(f'  self-validation: {len(out["killed"])}/{len(mutants) - len(out["skipped"])} applicable mutants reported '
            f'({len(out["skipped"])} skipped: no target on this tree), rewrites checked: {", ".join(REWRITES)}; {out["wall_s"]}s')
    return out
