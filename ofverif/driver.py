"""Command-line driver."""

from __future__ import annotations

import argparse
import json
import os
import sys

from .model import Unresolved
from .report import Check


def run_property(pid: str, tier: str, repo_root: str, quiet=False, evidence_dir=None, only_rule=None) -> tuple[int, Check]:
    from .rules import load_all
    reg = load_all()
    seed = int(os.environ.get('VERIF_SEED', '0') or 0)
    chk = Check(pid, tier, repo_root, seed=seed, quiet=quiet, evidence_dir=evidence_dir)
    if pid not in reg:
        chk.fatal = f'no rules registered for {pid}'
        print(f'ANALYSIS-ERROR property={pid} no rules registered')
        return 2, chk
    try:
        chk.load()
    except Unresolved as exc:
        chk.fatal = str(exc)
        print(f'ANALYSIS-ERROR property={pid} {exc}')
        return 2, chk
    for rid, text, fn in reg[pid]:
        if only_rule and rid != only_rule:
            continue
        chk.run_rule(rid, text, fn)
    if tier == 'thorough' and not only_rule:
        from .selfval import self_validate
        chk.selfval = self_validate(pid, repo_root, chk)
    return chk.finish(), chk


def main(argv) -> int:
    if argv and argv[0] == 'replay':
        with open(argv[1]) as f:
            rec = json.load(f)
        repo_root = argv[3] if len(argv) > 3 and argv[2] == '--repo' else '/repo'
        code, chk = run_property(rec['property'], 'quick', repo_root, evidence_dir='/tmp/ofverif-replay', only_rule=rec['rule'])
        key = rec['finding']['key']
        hit = [o for rr in chk.rules for o in rr.obligations if o.key == key and o.status == 'VIOLATED']
        print(f'replay: finding {key!r} {"REPRODUCED" if hit else "not present"} on {repo_root}')
        return 1 if hit else (2 if code == 2 else 0)
    ap = argparse.ArgumentParser()
    ap.add_argument('pid')
    ap.add_argument('--tier', default=os.environ.get('VERIF_TIER') or 'quick', choices=['quick', 'thorough'])
    ap.add_argument('--repo', default='/repo')
    ap.add_argument('--evidence-dir', default=None)
    ap.add_argument('--rule', default=None)
    a = ap.parse_args(argv)
    if a.pid == 'all':
        from .rules import load_all
        worst = 0
        for pid in sorted(load_all()):
            code, _ = run_property(pid, a.tier, a.repo, evidence_dir=a.evidence_dir)
            worst = max(worst, code) if 1 not in (worst, code) else 1
        return worst
    code, _ = run_property(a.pid, a.tier, a.repo, evidence_dir=a.evidence_dir, only_rule=a.rule)
    return code
