"""E1/E2 - source model and anchor resolver.

Parses every *.py under <repo>/openfilter with `ast` (never imports it) and offers:

  * module table, per-module import table and top-level definition table;
  * qualified-name lookup that understands nested classes, nested functions defined anywhere in the
    parent's statement tree (closures inside loops are first-class anchors:
    ``zeromq.py::ZMQReceiver.recv.recv_once.process_msg``), lambdas bound by assignment
    (``zeromq.py::ZMQReceiver.Sender.__init__.<lambda:self.init_recvd>``);
  * class hierarchy with bases resolved through the import tables (and python's builtin exception tree);
  * parent links and "enclosing function" for every node.

A missing anchor raises `Unresolved`, which the driver turns into ANALYSIS-ERROR / exit 2.
"""

from __future__ import annotations

import ast
import builtins
import hashlib
import os
from typing import Iterator

PKG = 'openfilter'
MIN_FILES = 30  # floor: the pinned tree has 40 python files under openfilter/


class Unresolved(Exception):
    """An anchor vanished or a construct on a judged path is outside the analyser's vocabulary."""


class Module:
    def __init__(self, repo: 'Repo', relpath: str, source: str):
        self.repo = repo
        self.relpath = relpath                      # e.g. openfilter/filter_runtime/zeromq.py
        self.dotted = relpath[:-3].replace('/', '.')
        if self.dotted.endswith('.__init__'):
            self.dotted = self.dotted[:-9]
        self.source = source
        self.tree = ast.parse(source, filename=relpath)
        self.lines = source.splitlines()
        for node in ast.walk(self.tree):
            for child in ast.iter_child_nodes(node):
                child._parent = node                # type: ignore[attr-defined]
        self.tree._parent = None                    # type: ignore[attr-defined]
        self.imports: dict[str, tuple[str, str | None]] = {}   # local name -> (module dotted, attr or None)
        self._scan_imports()

    def _scan_imports(self):
        pkg_parts = self.dotted.split('.')
        is_pkg = self.relpath.endswith('__init__.py')
        for node in ast.walk(self.tree):
            if isinstance(node, ast.Import):
                for a in node.names:
                    self.imports[a.asname or a.name.split('.')[0]] = (a.name if a.asname else a.name.split('.')[0], None)
            elif isinstance(node, ast.ImportFrom):
                if node.level:
                    base = pkg_parts if is_pkg else pkg_parts[:-1]
                    base = base[:len(base) - (node.level - 1)]
                    mod = '.'.join(base + ([node.module] if node.module else []))
                else:
                    mod = node.module or ''
                for a in node.names:
                    self.imports[a.asname or a.name] = (mod, a.name)

    def src(self, node: ast.AST) -> str:
        return ast.unparse(node)

    def loc(self, node: ast.AST) -> str:
        return f'{self.relpath}:{getattr(node, "lineno", 0)}'


def parent(node: ast.AST) -> ast.AST | None:
    return getattr(node, '_parent', None)


def ancestors(node: ast.AST) -> Iterator[ast.AST]:
    while (node := parent(node)) is not None:
        yield node


FuncLike = (ast.FunctionDef, ast.AsyncFunctionDef, ast.Lambda)


def enclosing_function(node: ast.AST):
    for a in ancestors(node):
        if isinstance(a, FuncLike):
            return a
    return None


def enclosing_class(node: ast.AST):
    for a in ancestors(node):
        if isinstance(a, ast.ClassDef):
            return a
    return None


def walk_scope(node: ast.AST, *, into_functions: bool = False) -> Iterator[ast.AST]:
    """Walk the statements/expressions of `node` without descending into nested function/class scopes
    (unless asked). `node` itself is not yielded."""
    stack = list(reversed(list(ast.iter_child_nodes(node))))
    while stack:
        n = stack.pop()
        yield n
        if not into_functions and isinstance(n, (ast.FunctionDef, ast.AsyncFunctionDef, ast.Lambda, ast.ClassDef)):
            continue
        stack.extend(reversed(list(ast.iter_child_nodes(n))))


def qualname(node: ast.AST) -> str:
    """Qualified name of a def/class/lambda, or of the def enclosing an arbitrary node."""
    parts = []
    n = node
    if not isinstance(n, (ast.FunctionDef, ast.AsyncFunctionDef, ast.ClassDef, ast.Lambda)):
        n = enclosing_function(n) or enclosing_class(n)
    while n is not None:
        if isinstance(n, (ast.FunctionDef, ast.AsyncFunctionDef, ast.ClassDef)):
            parts.append(n.name)
        elif isinstance(n, ast.Lambda):
            parts.append('<lambda>')
        n = parent(n)
    return '.'.join(reversed(parts)) or '<module>'


class Repo:
    def __init__(self, root: str = '/repo', overlay: dict | None = None, normalise: bool = True):
        """overlay: {relpath: source text} replaces the on-disk content of those files (used by the checker's
        self-validation to analyse mutants / rewrites of the current tree without writing them anywhere)."""
        self.root = root
        overlay = overlay or {}
        self.modules: dict[str, Module] = {}        # by relpath
        self.by_dotted: dict[str, Module] = {}
        pkgroot = os.path.join(root, PKG)
        if not os.path.isdir(pkgroot):
            raise Unresolved(f'package directory {pkgroot} not found')
        h = hashlib.sha256()
        for dirpath, dirnames, filenames in os.walk(pkgroot):
            dirnames[:] = sorted(d for d in dirnames if d != '__pycache__')
            for fn in sorted(filenames):
                if fn.endswith('.py'):
                    full = os.path.join(dirpath, fn)
                    rel = os.path.relpath(full, root)
                    if rel in overlay:
                        src = overlay[rel]
                    else:
                        with open(full, encoding='utf-8') as f:
                            src = f.read()
                    try:
                        m = Module(self, rel, src)
                    except SyntaxError as exc:
                        raise Unresolved(f'{rel}: does not parse: {exc}')
                    self.modules[rel] = m
                    self.by_dotted[m.dotted] = m
                    h.update(rel.encode() + b'\0' + src.encode() + b'\0')
        self.digest = h.hexdigest()
        if len(self.modules) < MIN_FILES:
            raise Unresolved(f'only {len(self.modules)} python files under {pkgroot}, expected >= {MIN_FILES}')
        self._classes: dict[str, tuple[Module, ast.ClassDef]] | None = None
        self.vocab_log: list[str] = []
        if normalise:
            from .vocab import normalise as _norm
            self.vocab_log = _norm(self)

    # ---- lookup -------------------------------------------------------------------------------------------------

    def module(self, relpath: str) -> Module:
        if relpath not in self.modules:
            raise Unresolved(f'module {relpath} not found')
        return self.modules[relpath]

    def find(self, anchor: str) -> tuple[Module, ast.AST]:
        """anchor = 'openfilter/filter_runtime/zeromq.py::ZMQReceiver.recv.recv_once.process_msg'.
        A path component '<lambda:TARGET>' selects the lambda assigned to TARGET (unparsed target text,
        e.g. self.init_recvd) inside the current scope; with several matches '<lambda:TARGET#n>' picks the n-th."""
        relpath, _, qn = anchor.partition('::')
        mod = self.module(relpath)
        node: ast.AST = mod.tree
        for part in qn.split('.') if qn else []:
            node = self._child(mod, node, part, anchor)
        return mod, node

    def try_find(self, anchor: str):
        try:
            return self.find(anchor)
        except Unresolved:
            return None

    def _child(self, mod: Module, scope: ast.AST, part: str, anchor: str) -> ast.AST:
        if part.startswith('<lambda:'):
            spec = part[8:-1]
            tgt, _, idx = spec.partition('#')
            found = []
            for n in walk_scope(scope):
                if isinstance(n, ast.Assign) and isinstance(n.value, ast.Lambda) and any(ast.unparse(t) == tgt for t in n.targets):
                    found.append(n.value)
            if not found:
                raise Unresolved(f'anchor {anchor}: no lambda assigned to {tgt}')
            i = int(idx) if idx else 0
            if i >= len(found):
                raise Unresolved(f'anchor {anchor}: only {len(found)} lambdas assigned to {tgt}')
            return found[i]
        # direct children first (class bodies / module), then anywhere in the scope's statement tree
        for n in walk_scope(scope):
            if isinstance(n, (ast.FunctionDef, ast.AsyncFunctionDef, ast.ClassDef)) and n.name == part:
                return n
        raise Unresolved(f'anchor {anchor}: {part!r} not found in {qualname(scope) if scope is not mod.tree else mod.relpath}')

    def functions(self) -> Iterator[tuple[Module, ast.AST]]:
        for mod in self.modules.values():
            for n in ast.walk(mod.tree):
                if isinstance(n, (ast.FunctionDef, ast.AsyncFunctionDef, ast.Lambda)):
                    yield mod, n

    # ---- classes ------------------------------------------------------------------------------------------------

    def classes(self) -> dict[str, tuple[Module, ast.ClassDef]]:
        """All classes keyed by 'relpath::Qual.Name'."""
        if self._classes is None:
            out = {}
            for mod in self.modules.values():
                for n in ast.walk(mod.tree):
                    if isinstance(n, ast.ClassDef):
                        out[f'{mod.relpath}::{qualname(n)}'] = (mod, n)
            self._classes = out
        return self._classes

    def resolve_class(self, mod: Module, expr: ast.AST | str, scope: ast.AST | None = None):
        """Resolve a class reference expression (Name / dotted Attribute) used in `mod` to
        ('repo', key) | ('builtin', name) | None."""
        text = expr if isinstance(expr, str) else ast.unparse(expr)
        parts = text.split('.')
        classes = self.classes()
        # 1. lexically enclosing classes (nested class referenced by bare name inside the class body)
        if scope is not None:
            n = scope
            while n is not None:
                if isinstance(n, ast.ClassDef):
                    key = f'{mod.relpath}::{qualname(n)}.{text}'
                    if key in classes:
                        return ('repo', key)
                n = parent(n)
        # 2. module-level definition in this module
        key = f'{mod.relpath}::{text}'
        if key in classes:
            return ('repo', key)
        # 3. imported name
        head = parts[0]
        if head in mod.imports:
            imod, attr = mod.imports[head]
            if attr is None:                      # import x.y as z ; z.Class
                target = self.by_dotted.get(imod)
                if target is not None and len(parts) > 1:
                    key = f'{target.relpath}::{".".join(parts[1:])}'
                    if key in classes:
                        return ('repo', key)
            else:
                target = self.by_dotted.get(imod)
                if target is not None:
                    # follow one re-export hop
                    key = f'{target.relpath}::{".".join([attr] + parts[1:])}'
                    if key in classes:
                        return ('repo', key)
                    if attr in target.imports:
                        return self.resolve_class(target, '.'.join([attr] + parts[1:]))
                sub = self.by_dotted.get(f'{imod}.{attr}')
                if sub is not None and len(parts) > 1:
                    key = f'{sub.relpath}::{".".join(parts[1:])}'
                    if key in classes:
                        return ('repo', key)
        # 4. builtin
        if len(parts) == 1 and isinstance(getattr(builtins, head, None), type):
            return ('builtin', head)
        return None

    def bases(self, key: str) -> list:
        mod, cls = self.classes()[key]
        out = []
        for b in cls.bases:
            out.append(self.resolve_class(mod, b, scope=parent(cls)))
        return out

    def mro_names(self, ref) -> list[str]:
        """Linearised list of ancestor identifiers ('repo:key' / 'builtin:name'), breadth-first; unknown bases are
        reported as 'unknown:<text>'."""
        seen, order, todo = set(), [], [ref]
        while todo:
            r = todo.pop(0)
            if r is None:
                continue
            ident = f'{r[0]}:{r[1]}'
            if ident in seen:
                continue
            seen.add(ident)
            order.append(ident)
            if r[0] == 'repo':
                todo.extend(self.bases(r[1]))
            elif r[0] == 'builtin':
                cls = getattr(builtins, r[1])
                for b in cls.__mro__[1:]:
                    if b is not object:
                        todo.append(('builtin', b.__name__))
        return order

    def is_subclass(self, ref_a, ref_b) -> bool | None:
        """Is class `ref_a` a subclass of `ref_b`?  None when unknown."""
        if ref_a is None or ref_b is None:
            return None
        return f'{ref_b[0]}:{ref_b[1]}' in self.mro_names(ref_a)
