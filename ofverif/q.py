"""Query helpers shared by the rules (E6/E7/E9): ordering facts, guard contexts, syntactic searches,
constant folding of module-level literals, who-calls queries."""

from __future__ import annotations

import ast
from typing import Iterable, Iterator

from .model import Repo, Module, Unresolved, walk_scope, parent, ancestors, enclosing_function, qualname
from .paths import Path, Event, U


# ---------------------------------------------------------------------------------------------------- path facts

def order(path: Path, a: str, b: str):
    """Relation of term a vs term b recorded on the path: '<', '=', '>', '<>' (known unequal) or None."""
    if a == b:
        return '='
    x, y = sorted((a, b))
    rel = path.facts.get(f'ord({x}, {y})')
    if rel is None:
        eq = path.facts.get(f'eq({x}, {y})')
        if eq is True:
            return '='
        if eq is False:
            return '<>'
        return None
    if x == a:
        return rel
    return {'<': '>', '>': '<', '=': '='}[rel]


def fact(path: Path, kind: str, *terms):
    if kind == 'is':
        terms = sorted(terms)
    return path.facts.get(f'{kind}({", ".join(terms)})')


def pc_at(path: Path, ev: Event) -> dict:
    return dict(path.pc[:ev.pc_len])


def before(path: Path, e1: Event, e2: Event) -> bool:
    return path.events.index(e1) < path.events.index(e2)


# -------------------------------------------------------------------------------------------- constant folding (E9)

class _NoFold(Exception):
    pass


def fold(node: ast.AST, env: dict, env_defaults: bool = True):
    """Evaluate a module-level literal expression without importing anything. Understands literals, names already
    folded, + - * // % | & << on constants, unary minus/not, tuple/list/dict/set displays, `os.getenv(X) or D`,
    int()/bool()/str()/float()/max()/min() of folded arguments."""
    if isinstance(node, ast.Constant):
        return node.value
    if isinstance(node, ast.Name):
        if node.id in env:
            return env[node.id]
        raise _NoFold(node.id)
    if isinstance(node, ast.Tuple):
        return tuple(fold(e, env, env_defaults) for e in node.elts)
    if isinstance(node, ast.List):
        return [fold(e, env, env_defaults) for e in node.elts]
    if isinstance(node, ast.Set):
        return {fold(e, env, env_defaults) for e in node.elts}
    if isinstance(node, ast.Dict):
        if any(k is None for k in node.keys):
            raise _NoFold('**')
        return {fold(k, env, env_defaults): fold(v, env, env_defaults) for k, v in zip(node.keys, node.values)}
    if isinstance(node, ast.UnaryOp):
        v = fold(node.operand, env, env_defaults)
        if isinstance(node.op, ast.USub):
            return -v
        if isinstance(node.op, ast.Not):
            return not v
        if isinstance(node.op, ast.UAdd):
            return +v
        raise _NoFold('unary')
    if isinstance(node, ast.BinOp):
        a, b = fold(node.left, env, env_defaults), fold(node.right, env, env_defaults)
        ops = {ast.Add: lambda: a + b, ast.Sub: lambda: a - b, ast.Mult: lambda: a * b, ast.FloorDiv: lambda: a // b,
               ast.Mod: lambda: a % b, ast.BitOr: lambda: a | b, ast.BitAnd: lambda: a & b, ast.LShift: lambda: a << b,
               ast.Div: lambda: a / b}
        if type(node.op) in ops:
            try:
                return ops[type(node.op)]()
            except Exception:
                raise _NoFold('binop')
        raise _NoFold('binop')
    if isinstance(node, ast.BoolOp) and isinstance(node.op, ast.Or):
        # os.getenv('X') or D   -> D (environment unset is the documented default)
        for v in node.values:
            if _is_getenv(v):
                if not env_defaults:
                    raise _NoFold('getenv')
                continue
            return fold(v, env, env_defaults)
        raise _NoFold('or')
    if isinstance(node, ast.Call) and isinstance(node.func, ast.Name) and node.func.id in ('int', 'bool', 'str', 'float', 'max', 'min', 'len') \
            and not node.keywords:
        args = [fold(a, env, env_defaults) for a in node.args]
        try:
            return {'int': int, 'bool': bool, 'str': str, 'float': float, 'max': max, 'min': min, 'len': len}[node.func.id](*args)
        except Exception:
            raise _NoFold('call')
    raise _NoFold(type(node).__name__)


def _is_getenv(node):
    return isinstance(node, ast.Call) and U(node.func) in ('os.getenv', 'os.environ.get', 'getenv')


def module_consts(mod: Module, env_defaults: bool = True) -> dict:
    """Fold the module's top-level simple assignments in order (single-assignment names only)."""
    env: dict = {}
    counts: dict = {}
    for st in mod.tree.body:
        if isinstance(st, ast.Assign):
            for t in st.targets:
                if isinstance(t, ast.Name):
                    counts[t.id] = counts.get(t.id, 0) + 1
    for n in ast.walk(mod.tree):   # names assigned anywhere else (conditionally) are not constants
        if isinstance(n, (ast.Assign, ast.AugAssign, ast.AnnAssign)) and parent(n) is not mod.tree:
            tgts = n.targets if isinstance(n, ast.Assign) else [n.target]
            for t in tgts:
                if isinstance(t, ast.Name) and enclosing_function(n) is None:
                    counts[t.id] = counts.get(t.id, 0) + 1
        if isinstance(n, ast.Global):
            for name in n.names:
                counts[name] = counts.get(name, 0) + 5
    for st in mod.tree.body:
        if isinstance(st, ast.Assign) and len(st.targets) == 1 and isinstance(st.targets[0], ast.Name):
            name = st.targets[0].id
            if counts.get(name) != 1:
                continue
            try:
                env[name] = fold(st.value, env, env_defaults)
            except _NoFold:
                pass
            except Exception:
                pass
    return env


def class_consts(cls: ast.ClassDef, env: dict | None = None) -> dict:
    out = dict(env or {})
    res = {}
    for st in cls.body:
        if isinstance(st, ast.Assign) and len(st.targets) == 1 and isinstance(st.targets[0], ast.Name):
            try:
                res[st.targets[0].id] = out[st.targets[0].id] = fold(st.value, out)
            except Exception:
                pass
    return res


# -------------------------------------------------------------------------------------------- syntactic searches

def calls_in(node: ast.AST, *, into_functions=True) -> Iterator[ast.Call]:
    it = ast.walk(node) if into_functions else walk_scope(node)
    for n in it:
        if isinstance(n, ast.Call):
            yield n


def attr_calls(node: ast.AST, attr: str, *, into_functions=True) -> list[ast.Call]:
    return [c for c in calls_in(node, into_functions=into_functions)
            if isinstance(c.func, ast.Attribute) and c.func.attr == attr]


def name_calls(node: ast.AST, name: str, *, into_functions=True) -> list[ast.Call]:
    return [c for c in calls_in(node, into_functions=into_functions)
            if isinstance(c.func, ast.Name) and c.func.id == name]


def stores_to_attr(node: ast.AST, attr: str) -> list[tuple[ast.AST, ast.AST]]:
    """(statement, target) for every assignment / augmented assignment / walrus / del to an attribute named attr."""
    out = []
    for n in ast.walk(node):
        tgts = []
        if isinstance(n, ast.Assign):
            tgts = n.targets
        elif isinstance(n, (ast.AugAssign, ast.AnnAssign)):
            tgts = [n.target]
        elif isinstance(n, ast.Delete):
            tgts = n.targets
        elif isinstance(n, (ast.For, ast.AsyncFor)):
            tgts = [n.target]
        elif isinstance(n, (ast.With, ast.AsyncWith)):
            tgts = [i.optional_vars for i in n.items if i.optional_vars is not None]
        for t in tgts:
            for sub in ast.walk(t):
                if isinstance(sub, ast.Attribute) and sub.attr == attr and isinstance(sub.ctx, (ast.Store, ast.Del)):
                    out.append((n, sub))
    return out


def enclosing_stmt(node: ast.AST) -> ast.stmt:
    n = node
    while n is not None and not isinstance(n, ast.stmt):
        n = parent(n)
    return n


def guards_of(node: ast.AST, stop: ast.AST | None = None) -> list[tuple[ast.AST, bool]]:
    """Syntactic guard context: (test expression, polarity) of every enclosing if/while/conditional expression /
    boolean short-circuit between `node` and `stop` (default: enclosing function), innermost first."""
    out = []
    child = node
    for a in ancestors(node):
        if a is stop or isinstance(a, (ast.FunctionDef, ast.AsyncFunctionDef, ast.Lambda)) and stop is None:
            break
        if isinstance(a, (ast.If, ast.While)):
            if child in a.body:
                out.append((a.test, True))
            elif child in a.orelse:
                out.append((a.test, False))
        elif isinstance(a, ast.IfExp):
            if child is a.body:
                out.append((a.test, True))
            elif child is a.orelse:
                out.append((a.test, False))
        elif isinstance(a, ast.BoolOp):
            idx = a.values.index(child) if child in a.values else -1
            for prev in a.values[:max(idx, 0)]:
                out.append((prev, isinstance(a.op, ast.And)))
        elif isinstance(a, ast.comprehension):
            pass
        elif isinstance(a, (ast.ListComp, ast.SetComp, ast.GeneratorExp, ast.DictComp)):
            # element is guarded by the comprehension's ifs
            if child in (getattr(a, 'elt', None), getattr(a, 'key', None), getattr(a, 'value', None)):
                for g in a.generators:
                    for i in g.ifs:
                        out.append((i, True))
        child = a
    # normalise: `not t` under polarity p is `t` under polarity not p (an if/else with swapped branches reads the same)
    norm = []
    for t, pol in out:
        while isinstance(t, ast.UnaryOp) and isinstance(t.op, ast.Not):
            t, pol = t.operand, not pol
        norm.append((t, pol))
    return norm


def inside(node: ast.AST, container: ast.AST) -> bool:
    return any(a is container for a in ancestors(node))


def within_with(node: ast.AST, ctx_text: str) -> bool:
    for a in ancestors(node):
        if isinstance(a, (ast.With, ast.AsyncWith)) and any(U(i.context_expr) == ctx_text for i in a.items):
            return True
        if isinstance(a, (ast.FunctionDef, ast.AsyncFunctionDef, ast.Lambda)):
            return False
    return False


def func_params(fn) -> list[str]:
    a = fn.args
    return [x.arg for x in a.posonlyargs + a.args + a.kwonlyargs]


def kwarg(call: ast.Call, name: str):
    for k in call.keywords:
        if k.arg == name:
            return k.value
    return None


def named_tuple_fields(cls: ast.ClassDef) -> list[str]:
    return [st.target.id for st in cls.body if isinstance(st, ast.AnnAssign) and isinstance(st.target, ast.Name)]


def all_package_calls(repo: Repo) -> Iterator[tuple[Module, ast.Call]]:
    for mod in repo.modules.values():
        for n in ast.walk(mod.tree):
            if isinstance(n, ast.Call):
                yield mod, n


def const_str(node) -> str | None:
    return node.value if isinstance(node, ast.Constant) and isinstance(node.value, str) else None


def strip_not(test: ast.AST) -> tuple[ast.AST, bool]:
    pol = True
    while isinstance(test, ast.UnaryOp) and isinstance(test.op, ast.Not):
        test = test.operand
        pol = not pol
    return test, pol


def conjuncts(test: ast.AST, polarity: bool = True) -> list[tuple[ast.AST, bool]]:
    """Flatten a guard into atoms that are *implied* when the guard has the given polarity:
    (a and b) true => a true, b true; (a or b) false => a false, b false; not x flips."""
    t, pol = strip_not(test)
    polarity = polarity if pol else not polarity
    if isinstance(t, ast.BoolOp):
        if isinstance(t.op, ast.And) and polarity:
            return [c for v in t.values for c in conjuncts(v, True)]
        if isinstance(t.op, ast.Or) and not polarity:
            return [c for v in t.values for c in conjuncts(v, False)]
        return [(t, polarity)]
    if isinstance(t, ast.NamedExpr):
        return [(t, polarity)] + conjuncts(t.value, polarity)
    return [(t, polarity)]


# ---------------------------------------------------------------------------- aliases of enclosing scopes (E3)

def _simple_alias_rhs(v: ast.AST, known: dict | None = None) -> bool:
    """Attribute chain rooted at a name, optionally ending in a pure no-argument method call (x.y.values())."""
    if isinstance(v, ast.Call) and not v.args and not v.keywords and isinstance(v.func, ast.Attribute) \
            and v.func.attr in ('values', 'items', 'keys'):
        v = v.func.value
    n = 0
    while isinstance(v, ast.Attribute):
        v = v.value
        n += 1
    return isinstance(v, ast.Name) and (n >= 1 or (known is not None and v.id in known))


def outer_aliases(fn: ast.AST) -> dict[str, ast.AST]:
    """Single-assignment simple aliases (`clients = self.clients`, `sendervs = senders.values()`) of the functions
    that lexically enclose `fn`, resolved among themselves. A name that is assigned more than once anywhere in its
    function (including by nested closures via nonlocal, loop targets, walrus) is not an alias."""
    chain = []
    for a in ancestors(fn):
        if isinstance(a, (ast.FunctionDef, ast.AsyncFunctionDef)):
            chain.append(a)
    out: dict[str, ast.AST] = {}
    for F in reversed(chain):
        counts: dict[str, int] = {}
        for n in ast.walk(F):
            tg = []
            if isinstance(n, ast.Assign):
                tg = n.targets
            elif isinstance(n, (ast.AugAssign, ast.AnnAssign, ast.NamedExpr)):
                tg = [n.target]
            elif isinstance(n, (ast.For, ast.AsyncFor)):
                tg = [n.target]
            elif isinstance(n, ast.comprehension):
                tg = [n.target]
            elif isinstance(n, (ast.With, ast.AsyncWith)):
                tg = [i.optional_vars for i in n.items if i.optional_vars is not None]
            elif isinstance(n, ast.ExceptHandler) and n.name:
                counts[n.name] = counts.get(n.name, 0) + 1
            elif isinstance(n, ast.arg) and n is not None:
                counts[n.arg] = counts.get(n.arg, 0) + 1
            for t in tg:
                for x in ast.walk(t):
                    if isinstance(x, ast.Name) and isinstance(x.ctx, ast.Store):
                        counts[x.id] = counts.get(x.id, 0) + 1
        for st in F.body:
            if isinstance(st, ast.Assign) and len(st.targets) == 1 and isinstance(st.targets[0], ast.Name) \
                    and counts.get(st.targets[0].id) == 1 and _simple_alias_rhs(st.value, out):
                out[st.targets[0].id] = _subst(st.value, out)
            elif isinstance(st, ast.Assign) and len(st.targets) == 2 and all(isinstance(t, ast.Name) for t in st.targets) \
                    and all(counts.get(t.id) == 1 for t in st.targets) and _simple_alias_rhs(st.value, out):
                for t in st.targets:
                    out[t.id] = _subst(st.value, out)
    return out


def _subst(node: ast.AST, env: dict) -> ast.AST:
    # re-parse instead of deepcopy: nodes of the module tree carry parent links
    fresh = ast.parse(ast.unparse(node), mode='eval').body

    class T(ast.NodeTransformer):
        def visit_Name(self, n):
            return env[n.id] if n.id in env and isinstance(n.ctx, ast.Load) else n
    return T().visit(fresh)


# ------------------------------------------------------------------------------------------- rule vocabulary guard

def bound_names(fn: ast.AST) -> set[str]:
    """names bound in a function (parameters, assignments, loop/with/except targets, walrus, nested defs) or declared nonlocal"""
    out = set()
    if isinstance(fn, (ast.FunctionDef, ast.AsyncFunctionDef, ast.Lambda)):
        a = fn.args
        out |= {x.arg for x in a.posonlyargs + a.args + a.kwonlyargs}
        if a.vararg:
            out.add(a.vararg.arg)
        if a.kwarg:
            out.add(a.kwarg.arg)
    for n in ast.walk(fn):
        if isinstance(n, ast.Name) and isinstance(n.ctx, (ast.Store, ast.Del)):
            out.add(n.id)
        elif isinstance(n, (ast.Nonlocal, ast.Global)):
            out.update(n.names)
        elif isinstance(n, (ast.FunctionDef, ast.AsyncFunctionDef, ast.ClassDef)) and n is not fn:
            out.add(n.name)
        elif isinstance(n, ast.ExceptHandler) and n.name:
            out.add(n.name)
        elif isinstance(n, ast.arg):
            out.add(n.arg)
    return out


def expect_locals(mod: Module, fn: ast.AST, names, why: str = ''):
    """The rules of this repository-specific checker are written in the vocabulary of the code they were confirmed on
    (the names of a handful of locals). If one of those names is no longer bound in the anchored function the rule
    cannot be trusted either way: that is UNRESOLVED (exit 2, 're-anchor me'), never a violation."""
    have = bound_names(fn)
    missing = [n for n in names if n not in have]
    if missing:
        raise Unresolved(f'{mod.relpath}:{qualname(fn)}: local name(s) {missing} that the rules refer to are no longer bound here{(" (" + why + ")") if why else ""}; the checker needs re-anchoring')


# ------------------------------------------------------------------------------------------------ loop independence
class _DefUse:
    """Definite-assignment walk of one loop iteration in evaluation order: which names that the loop body itself binds are read at a point
    where this iteration has not (definitely) bound them yet - such a read sees the value a previous iteration (or the code before the loop) left."""

    def __init__(self, watched):
        self.watched = set(watched)
        self.carried = []     # (name, node)

    def expr(self, e, A):
        if e is None:
            return A
        if isinstance(e, ast.Name):
            if isinstance(e.ctx, ast.Load) and e.id in self.watched and e.id not in A:
                self.carried.append((e.id, e))
            return A
        if isinstance(e, ast.NamedExpr):
            A = self.expr(e.value, A)
            return A | {e.target.id}
        if isinstance(e, ast.IfExp):
            A = self.expr(e.test, A)
            return self.expr(e.body, A) & self.expr(e.orelse, A)
        if isinstance(e, ast.BoolOp):
            A = self.expr(e.values[0], A)
            B = A
            for v in e.values[1:]:
                B = self.expr(v, B)
            return A
        if isinstance(e, (ast.ListComp, ast.SetComp, ast.GeneratorExp, ast.DictComp)):
            inner = {n.id for g in e.generators for n in ast.walk(g.target) if isinstance(n, ast.Name)}
            sub = _DefUse(self.watched - inner)
            B = set(A)
            for g in e.generators:
                B = sub.expr(g.iter, B)
                for c in g.ifs:
                    sub.expr(c, B)
            for part in ([e.key, e.value] if isinstance(e, ast.DictComp) else [e.elt]):
                sub.expr(part, B)
            self.carried += sub.carried
            return A
        if isinstance(e, ast.Lambda):
            params = {a.arg for a in e.args.args + e.args.kwonlyargs + e.args.posonlyargs} | ({e.args.vararg.arg} if e.args.vararg else set()) | ({e.args.kwarg.arg} if e.args.kwarg else set())
            sub = _DefUse(self.watched - params)
            sub.expr(e.body, set(A))
            self.carried += sub.carried
            return A
        for c in ast.iter_child_nodes(e):
            if isinstance(c, ast.expr):
                A = self.expr(c, A)
            elif isinstance(c, (ast.keyword,)):
                A = self.expr(c.value, A)
            elif isinstance(c, ast.comprehension):
                pass
        return A

    def target(self, t, A):
        if isinstance(t, ast.Name):
            return A | {t.id}
        if isinstance(t, (ast.Tuple, ast.List)):
            for x in t.elts:
                A = self.target(x, A)
            return A
        if isinstance(t, ast.Starred):
            return self.target(t.value, A)
        return self.expr(t, A)       # attribute / subscript store: the base is read

    def block(self, stmts, A):
        """-> definitely-assigned set after the block, or None when the block never falls through"""
        for s in stmts:
            A = self.stmt(s, A)
            if A is None:
                return None
        return A

    def stmt(self, s, A):
        if isinstance(s, ast.Assign):
            A = self.expr(s.value, A)
            for t in s.targets:
                A = self.target(t, A)
            return A
        if isinstance(s, ast.AnnAssign):
            A = self.expr(s.value, A)
            return self.target(s.target, A) if s.value is not None else A
        if isinstance(s, ast.AugAssign):
            A = self.expr(s.value, A)
            if isinstance(s.target, ast.Name):
                if s.target.id in self.watched and s.target.id not in A:
                    self.carried.append((s.target.id, s.target))
                return A | {s.target.id}
            return self.expr(s.target, A)
        if isinstance(s, (ast.Expr, ast.Return)):
            A = self.expr(s.value, A)
            return None if isinstance(s, ast.Return) else A
        if isinstance(s, ast.Raise):
            self.expr(s.exc, A)
            return None
        if isinstance(s, (ast.Continue, ast.Break)):
            return None
        if isinstance(s, ast.If):
            A = self.expr(s.test, A)
            b, o = self.block(s.body, set(A)), self.block(s.orelse, set(A))
            if b is None:
                return o
            if o is None:
                return b
            return b & o
        if isinstance(s, (ast.For, ast.While)):
            if isinstance(s, ast.For):
                A = self.expr(s.iter, A)
                self.block(s.body, self.target(s.target, set(A)))
            else:
                A = self.expr(s.test, A)
                self.block(s.body, set(A))
            self.block(s.orelse, set(A))
            return A
        if isinstance(s, ast.Try):
            self.block(s.body, set(A))
            for h in s.handlers:
                self.block(h.body, set(A) | ({h.name} if h.name else set()))
            self.block(s.orelse, set(A))
            f = self.block(s.finalbody, set(A))
            return A if f is not None else None
        if isinstance(s, ast.With):
            for it in s.items:
                A = self.expr(it.context_expr, A)
                if it.optional_vars is not None:
                    A = self.target(it.optional_vars, A)
            return self.block(s.body, A)
        if isinstance(s, (ast.FunctionDef, ast.AsyncFunctionDef, ast.ClassDef)):
            return A | {s.name}
        if isinstance(s, ast.Assert):
            self.expr(s.test, A)
            return A
        if isinstance(s, ast.Delete):
            return A
        if isinstance(s, (ast.Pass, ast.Global, ast.Nonlocal, ast.Import, ast.ImportFrom)):
            return A
        raise Unresolved(f'loop independence: statement kind {type(s).__name__} at line {s.lineno}')


def loop_carried(loop: ast.For) -> list[tuple[str, ast.AST]]:
    """Names bound by the body of `loop` that some iteration reads before it has bound them itself: [(name, reading node)]."""
    stored = set()
    for n in ast.walk(loop):
        if n is loop:
            continue
        if isinstance(n, ast.Name) and isinstance(n.ctx, ast.Store):
            stored.add(n.id)
    du = _DefUse(stored)
    A = du.target(loop.target, set())
    du.block(loop.body, A)
    return du.carried


# ------------------------------------------------------------------------------------------------ effective guards
def effective_guards(node: ast.AST, stop: ast.AST):
    """The conditions under which `node` is reached inside `stop`, as [(test text with leading `not`s folded into the polarity, polarity)]: the tests of the enclosing
    ifs (by branch) AND, in every enclosing statement list, the tests of the EARLIER `if <t>: ... continue / break / return / raise` statements (without else), negated -
    the early-exit idiom `if is_address(x): continue` guards everything after it just like an enclosing `if not is_address(x):`."""
    from .model import parent as _parent
    out = []

    def norm(t, pol):
        while isinstance(t, ast.UnaryOp) and isinstance(t.op, ast.Not):
            t, pol = t.operand, not pol
        return ast.unparse(t), pol

    def leaves(body):
        last = body[-1] if body else None
        return isinstance(last, (ast.Continue, ast.Break, ast.Return, ast.Raise))

    cur = enclosing_stmt(node)
    while cur is not None and cur is not stop:
        par = _parent(cur)
        if par is None:
            break
        for fname in ('body', 'orelse', 'finalbody'):
            lst = getattr(par, fname, None)
            if isinstance(lst, list) and cur in lst:
                for st in lst[:lst.index(cur)]:
                    if isinstance(st, ast.If) and not st.orelse and leaves(st.body):
                        out.append(norm(st.test, False))
                if isinstance(par, ast.If):
                    out.append(norm(par.test, fname == 'body'))
        cur = par if isinstance(par, ast.stmt) else (_parent(par) if par is not stop else None)
        if cur is stop:
            break
    return out
